// simmpi: communicators, collectives, point-to-point, info objects, errors.
#include "mpi_int.hpp"
#include <algorithm>
#include <climits>
#include <cstdio>

namespace sim {

RankRes &rank_res_mut(int rank);
void files_reset();
void posix_reset();

enum CollKind { C_BARRIER = 1, C_BCAST, C_ALLREDUCE, C_REDUCE, C_GATHER, C_GATHERV, C_ALLGATHER, C_ALLTOALL, C_COMM_DUP, C_COMM_SPLIT,
                C_FILE_OPEN, C_COMM_FREE };
static const char *coll_name(int k) {
    static const char *n[] = {"?", "MPI_Barrier", "MPI_Bcast", "MPI_Allreduce", "MPI_Reduce", "MPI_Gather", "MPI_Gatherv", "MPI_Allgather",
                              "MPI_Alltoall", "MPI_Comm_dup", "MPI_Comm_split", "MPI_File_open", "MPI_Comm_free"};
    return (k >= 1 && k <= 12) ? n[k] : "?";
}

struct CollSlot {
    int kind = 0, root = -1, op = 0, dtype = 0; long long sig = -1;
    int arrived = 0, left = 0;
    std::vector<char> here;
    std::vector<std::vector<uint8_t>> contrib;
    std::vector<long long> aux, aux2;
    std::string first_site; int first_rank = -1;
    // results for constructors
    std::map<int, int> color_handle; int result = 0; bool evaluated = false; int result_handle = 0;
    std::string path; int amode = 0; int info = 0;
};
struct Comm {
    std::vector<int> members;            // world ranks, index = rank in comm
    std::vector<long> seq;               // per member: next collective sequence number
    long base = 0; std::deque<CollSlot> slots;
    std::vector<char> live;              // per member handle still valid
    bool in_lib = false; bool predefined = false;
    int rank_of(int world) const { for (size_t i = 0; i < members.size(); i++) if (members[i] == world) return (int)i; return -1; }
};
static std::vector<std::shared_ptr<Comm>> comms;   // handle = index; 0 null, 1 world, 2 self(template)
static std::vector<std::shared_ptr<Comm>> selfs;   // per world rank

struct Msg { int src, tag; std::vector<uint8_t> data; bool matched = false; long id; };
struct P2PQ { std::deque<std::shared_ptr<Msg>> q; };
static std::map<std::tuple<int, int, int>, P2PQ> queues; // (comm handle, src comm-rank, dst comm-rank)
struct Req { bool live = false, done = false, is_recv = false; int comm = 0, peer = 0, tag = 0; void *buf = nullptr; long long count = 0;
             std::shared_ptr<TypeObj> type; int owner = -1; bool in_lib = false; std::shared_ptr<Msg> msg; long long got = 0; };
static std::vector<Req> reqs;
static long msg_ids = 0;

struct InfoObj { bool live = false; std::map<std::string, std::string> kv; int owner = -1; bool in_lib = false; };
static std::vector<InfoObj> infos;

int make_errcode(int cls) { return cls == MPI_SUCCESS ? MPI_SUCCESS : 7000 + cls; }
const char *errclass_name(int cls) {
    switch (cls) {
    case MPI_ERR_IO: return "MPI_ERR_IO"; case MPI_ERR_NO_SPACE: return "MPI_ERR_NO_SPACE"; case MPI_ERR_QUOTA: return "MPI_ERR_QUOTA";
    case MPI_ERR_ACCESS: return "MPI_ERR_ACCESS"; case MPI_ERR_READ_ONLY: return "MPI_ERR_READ_ONLY"; case MPI_ERR_FILE: return "MPI_ERR_FILE";
    case MPI_ERR_OTHER: return "MPI_ERR_OTHER"; case MPI_ERR_AMODE: return "MPI_ERR_AMODE"; case MPI_ERR_BAD_FILE: return "MPI_ERR_BAD_FILE";
    case MPI_ERR_FILE_EXISTS: return "MPI_ERR_FILE_EXISTS"; case MPI_ERR_NO_SUCH_FILE: return "MPI_ERR_NO_SUCH_FILE";
    case MPI_ERR_NOT_SAME: return "MPI_ERR_NOT_SAME"; case MPI_ERR_INTERN: return "MPI_ERR_INTERN"; case MPI_ERR_ARG: return "MPI_ERR_ARG";
    case MPI_ERR_TRUNCATE: return "MPI_ERR_TRUNCATE"; case MPI_ERR_UNKNOWN: return "MPI_ERR_UNKNOWN"; case MPI_ERR_NO_MEM: return "MPI_ERR_NO_MEM";
    case MPI_ERR_FILE_IN_USE: return "MPI_ERR_FILE_IN_USE"; case MPI_ERR_INFO_VALUE: return "MPI_ERR_INFO_VALUE";
    }
    return "MPI_ERR_?";
}

void mpi_reset(int n) {
    comms.clear(); selfs.clear(); queues.clear(); reqs.clear(); infos.clear(); msg_ids = 0;
    types_reset(); files_reset(); posix_reset();
    comms.push_back(nullptr);
    auto w = std::make_shared<Comm>(); for (int i = 0; i < n; i++) w->members.push_back(i);
    w->seq.assign(n, 0); w->live.assign(n, 1); w->predefined = true; comms.push_back(w);
    comms.push_back(nullptr); // self placeholder
    for (int i = 0; i < n; i++) { auto s = std::make_shared<Comm>(); s->members = {i}; s->seq = {0}; s->live = {1}; s->predefined = true; selfs.push_back(s); }
    reqs.push_back(Req()); infos.push_back(InfoObj());
}

Comm &comm_get(MPI_Comm c, const char *who) {
    if (c == MPI_COMM_SELF) return *selfs[cur_rank()];
    if (c <= 0 || c >= (int)comms.size() || !comms[c]) usage_error(std::string(who) + ": invalid communicator " + std::to_string(c));
    Comm &cm = *comms[c];
    int r = cm.rank_of(cur_rank());
    if (r < 0) usage_error(std::string(who) + ": calling rank is not a member of the communicator");
    if (!cm.live[r]) usage_error(std::string(who) + ": communicator used after MPI_Comm_free");
    return cm;
}
std::vector<int> comm_members(MPI_Comm c) { return comm_get(c, "comm_members").members; }
int comm_register(std::shared_ptr<Comm> c) { comms.push_back(c); return (int)comms.size() - 1; }

// Enter a collective: returns the slot; checks matching.
static CollSlot &coll_enter(Comm &cm, int me, int kind, int root, int op, int dtype, long long sig) {
    long s = cm.seq[me]++;
    while ((long)cm.slots.size() <= s - cm.base) { cm.slots.emplace_back(); auto &ns = cm.slots.back(); ns.here.assign(cm.members.size(), 0); ns.contrib.resize(cm.members.size()); ns.aux.assign(cm.members.size(), 0); ns.aux2.assign(cm.members.size(), 0); }
    CollSlot &sl = cm.slots[s - cm.base];
    g->st.coll++;
    if (sl.arrived == 0) { sl.kind = kind; sl.root = root; sl.op = op; sl.dtype = dtype; sl.sig = sig; sl.first_site = lib_site(); sl.first_rank = cur_rank(); }
    else if (sl.kind != kind || sl.root != root || sl.op != op || (sig >= 0 && sl.sig >= 0 && sl.sig != sig)) {
        char buf[768];
        snprintf(buf, sizeof buf, "rank %d called %s(root=%d,op=%d,sig=%lld) at [%s] but rank %d called %s(root=%d,op=%d,sig=%lld) at [%s] as collective #%ld of the communicator",
                 cur_rank(), coll_name(kind), root, op, sig, lib_site().c_str(), sl.first_rank, coll_name(sl.kind), sl.root, sl.op, sl.sig, sl.first_site.c_str(), s);
        violation("collective-mismatch", buf);
    }
    sl.here[me] = 1; sl.arrived++;
    ev(coll_name(kind), s, root, sig);
    return sl;
}
static void coll_leave(Comm &cm, CollSlot &sl) {
    sl.left++;
    while (!cm.slots.empty() && cm.slots.front().left == (int)cm.members.size()) { cm.slots.pop_front(); cm.base++; }
}
// re-find slot after blocking (deque references stay valid for push_back/pop_front of other elements, but be safe)
static CollSlot &slot_at(Comm &cm, long s) { return cm.slots[s - cm.base]; }

template <class T> static void red(T *acc, const T *in, long n, int op) {
    for (long i = 0; i < n; i++) switch (op) {
        case MPI_MAX: if (in[i] > acc[i]) acc[i] = in[i]; break;
        case MPI_MIN: if (in[i] < acc[i]) acc[i] = in[i]; break;
        case MPI_SUM: acc[i] = acc[i] + in[i]; break;
        case MPI_PROD: acc[i] = acc[i] * in[i]; break;
        case MPI_LAND: acc[i] = (acc[i] && in[i]); break;
        case MPI_LOR: acc[i] = (acc[i] || in[i]); break;
        default: break;
    }
}
template <class T> static void redbits(T *acc, const T *in, long n, int op) {
    for (long i = 0; i < n; i++) switch (op) {
        case MPI_BAND: acc[i] &= in[i]; break; case MPI_BOR: acc[i] |= in[i]; break; case MPI_BXOR: acc[i] ^= in[i]; break;
        case MPI_LXOR: acc[i] = (!acc[i]) != (!in[i]); break; default: red(acc + i, in + i, 1, op);
    }
}
static void reduce_bytes(uint8_t *acc, const uint8_t *in, long count, int dtype, int op) {
    switch (dtype) {
    case MPI_INT: case MPI_INTEGER: case MPI_INT32_T: redbits((int *)acc, (const int *)in, count, op); break;
    case MPI_UNSIGNED: case MPI_UINT32_T: redbits((unsigned *)acc, (const unsigned *)in, count, op); break;
    case MPI_LONG: case MPI_LONG_LONG_INT: case MPI_OFFSET: case MPI_AINT: case MPI_COUNT: case MPI_INT64_T: redbits((long long *)acc, (const long long *)in, count, op); break;
    case MPI_UNSIGNED_LONG: case MPI_UNSIGNED_LONG_LONG: case MPI_UINT64_T: redbits((unsigned long long *)acc, (const unsigned long long *)in, count, op); break;
    case MPI_SHORT: redbits((short *)acc, (const short *)in, count, op); break;
    case MPI_UNSIGNED_SHORT: redbits((unsigned short *)acc, (const unsigned short *)in, count, op); break;
    case MPI_CHAR: case MPI_SIGNED_CHAR: redbits((signed char *)acc, (const signed char *)in, count, op); break;
    case MPI_UNSIGNED_CHAR: case MPI_BYTE: redbits((unsigned char *)acc, (const unsigned char *)in, count, op); break;
    case MPI_FLOAT: red((float *)acc, (const float *)in, count, op); break;
    case MPI_DOUBLE: red((double *)acc, (const double *)in, count, op); break;
    default: usage_error("reduction on unsupported datatype " + std::to_string(dtype));
    }
}

// ---- point-to-point matching
static bool try_match(Req &r) {
    if (r.done) return true;
    auto it = queues.find(std::make_tuple(r.comm, r.peer, comms[r.comm]->rank_of(r.owner)));
    if (it == queues.end()) return false;
    for (auto mit = it->second.q.begin(); mit != it->second.q.end(); ++mit) {
        auto &m = *mit;
        if (r.tag != MPI_ANY_TAG && m->tag != r.tag) continue;
        long long cap = r.count * r.type->size;
        if ((long long)m->data.size() > cap) usage_error("message truncated on receive (MPI_ERR_TRUNCATE): sent " + std::to_string(m->data.size()) + " bytes, receive buffer " + std::to_string(cap));
        type_unpack(m->data.data(), (long long)m->data.size(), r.buf, r.count, *r.type);
        r.got = (long long)m->data.size(); m->matched = true; r.done = true;
        it->second.q.erase(mit);
        return true;
    }
    return false;
}
static int new_req(Req r) { r.live = true; r.owner = cur_rank(); r.in_lib = in_lib(); reqs.push_back(r); if (r.in_lib) rank_res_mut(r.owner).reqs++; return (int)reqs.size() - 1; }
static void free_req(int h) { Req &r = reqs[h]; if (r.in_lib) rank_res_mut(r.owner).reqs--; r.live = false; r.type.reset(); r.msg.reset(); }

std::string mpi_leak_report(int rank) {
    extern std::string type_leaks(int);
    std::string s = type_leaks(rank);
    return s;
}

} // namespace sim

using namespace sim;

extern "C" {

int MPI_Init(int *, char ***) { return MPI_SUCCESS; }
int MPI_Initialized(int *flag) { *flag = 1; return MPI_SUCCESS; }
int MPI_Finalize(void) { return MPI_SUCCESS; }
int MPI_Finalized(int *flag) { *flag = 0; return MPI_SUCCESS; }
int MPI_Abort(MPI_Comm, int code) { violation("mpi-abort", "MPI_Abort(" + std::to_string(code) + ") @" + lib_site()); }
double MPI_Wtime(void) { return g ? g->st.events * 1e-6 + g->st.steps * 1e-6 : 0.0; }
int MPI_Get_processor_name(char *name, int *len) {
    int node = (g && cur_rank() >= 0) ? g->cfg.node_of[cur_rank()] : 0;
    snprintf(name, MPI_MAX_PROCESSOR_NAME, "node%d", node); *len = (int)strlen(name); return MPI_SUCCESS;
}
int MPI_Error_class(int code, int *cls) { *cls = code >= 7000 ? code - 7000 : code; return MPI_SUCCESS; }
int MPI_Error_string(int code, char *str, int *len) {
    int cls; MPI_Error_class(code, &cls);
    snprintf(str, MPI_MAX_ERROR_STRING, "simmpi error %s (code %d)", errclass_name(cls), code); *len = (int)strlen(str); return MPI_SUCCESS;
}
int MPI_Buffer_detach(void *, int *size) { *size = 0; return MPI_SUCCESS; }

int MPI_Comm_rank(MPI_Comm c, int *rank) { Comm &cm = comm_get(c, "MPI_Comm_rank"); *rank = cm.rank_of(cur_rank()); return MPI_SUCCESS; }
int MPI_Comm_size(MPI_Comm c, int *size) { Comm &cm = comm_get(c, "MPI_Comm_size"); *size = (int)cm.members.size(); return MPI_SUCCESS; }
int MPI_Comm_set_errhandler(MPI_Comm, MPI_Errhandler) { return MPI_SUCCESS; }

int MPI_Barrier(MPI_Comm c) {
    yield("MPI_Barrier");
    Comm &cm = comm_get(c, "MPI_Barrier"); int me = cm.rank_of(cur_rank()); long s = cm.seq[me];
    coll_enter(cm, me, C_BARRIER, -1, 0, 0, -1);
    int n = (int)cm.members.size();
    block_until("MPI_Barrier", [&cm, s, n]() { return slot_at(cm, s).arrived == n; });
    coll_leave(cm, slot_at(cm, s)); return MPI_SUCCESS;
}
int MPI_Bcast(void *buf, int count, MPI_Datatype dt, int root, MPI_Comm c) {
    yield("MPI_Bcast");
    Comm &cm = comm_get(c, "MPI_Bcast"); int me = cm.rank_of(cur_rank()); long s = cm.seq[me]; int n = (int)cm.members.size();
    auto t = type_lookup(dt, "MPI_Bcast", true);
    if (root < 0 || root >= n) usage_error("MPI_Bcast: invalid root");
    CollSlot &sl = coll_enter(cm, me, C_BCAST, root, 0, 0, (long long)count * t->size);
    if (me == root) { sl.contrib[me].resize((size_t)count * t->size); type_pack(buf, count, *t, sl.contrib[me].data()); }
    bool eager = g->rng_mpi.chance(g->cfg.eager_coll);
    if (me == root) { if (!eager) block_until("MPI_Bcast", [&cm, s, n]() { return slot_at(cm, s).arrived == n; }); }
    else {
        if (eager) block_until("MPI_Bcast", [&cm, s, root]() { return slot_at(cm, s).here[root] != 0; });
        else block_until("MPI_Bcast", [&cm, s, n]() { return slot_at(cm, s).arrived == n; });
        CollSlot &s2 = slot_at(cm, s);
        type_unpack(s2.contrib[root].data(), (long long)s2.contrib[root].size(), buf, count, *t);
    }
    coll_leave(cm, slot_at(cm, s)); return MPI_SUCCESS;
}
static int do_reduce(const void *sb, void *rb, int count, MPI_Datatype dt, MPI_Op op, int root, MPI_Comm c, bool all) {
    const char *nm = all ? "MPI_Allreduce" : "MPI_Reduce";
    yield(nm);
    Comm &cm = comm_get(c, nm); int me = cm.rank_of(cur_rank()); long s = cm.seq[me]; int n = (int)cm.members.size();
    auto t = type_lookup(dt, nm, true);
    if (t->combiner != MPI_COMBINER_NAMED) usage_error(std::string(nm) + ": derived datatype in reduction not supported by simmpi");
    if (count < 0) usage_error(std::string(nm) + ": negative count");
    CollSlot &sl = coll_enter(cm, me, all ? C_ALLREDUCE : C_REDUCE, root, op, dt, (long long)count * t->size * 64 + dt);
    const void *src = (sb == MPI_IN_PLACE) ? rb : sb;
    sl.contrib[me].assign((const uint8_t *)src, (const uint8_t *)src + (size_t)count * t->size);
    bool needall = all || me == root;
    if (!needall && !g->rng_mpi.chance(g->cfg.eager_coll)) needall = true, (void)0;
    bool compute = all || me == root;
    if (needall) block_until(nm, [&cm, s, n]() { return slot_at(cm, s).arrived == n; });
    if (compute) {
        CollSlot &s2 = slot_at(cm, s);
        std::vector<uint8_t> acc = s2.contrib[0];
        for (int i = 1; i < n; i++) reduce_bytes(acc.data(), s2.contrib[i].data(), count, dt, op);
        if (!acc.empty()) memcpy(rb, acc.data(), acc.size());
    }
    coll_leave(cm, slot_at(cm, s)); return MPI_SUCCESS;
}
int MPI_Allreduce(const void *sb, void *rb, int count, MPI_Datatype dt, MPI_Op op, MPI_Comm c) { return do_reduce(sb, rb, count, dt, op, -1, c, true); }
int MPI_Reduce(const void *sb, void *rb, int count, MPI_Datatype dt, MPI_Op op, int root, MPI_Comm c) { return do_reduce(sb, rb, count, dt, op, root, c, false); }

static int do_gather(const void *sb, int sc, MPI_Datatype st, void *rb, int rc, const int *rcs, const int *displs, MPI_Datatype rt, int root, MPI_Comm c, int kind) {
    const char *nm = coll_name(kind);
    yield(nm);
    Comm &cm = comm_get(c, nm); int me = cm.rank_of(cur_rank()); long s = cm.seq[me]; int n = (int)cm.members.size();
    bool all = kind == C_ALLGATHER;
    auto stt = type_lookup(st, nm, true);
    long long sig = kind == C_GATHERV ? -1 : (long long)sc * stt->size;
    CollSlot &sl = coll_enter(cm, me, kind, all ? -1 : root, 0, 0, sig);
    sl.contrib[me].resize((size_t)sc * stt->size); type_pack(sb, sc, *stt, sl.contrib[me].data());
    bool recvr = all || me == root;
    bool needall = recvr || !g->rng_mpi.chance(g->cfg.eager_coll);
    if (needall) block_until(nm, [&cm, s, n]() { return slot_at(cm, s).arrived == n; });
    if (recvr) {
        auto rtt = type_lookup(rt, nm, true);
        CollSlot &s2 = slot_at(cm, s);
        long long rext = rtt->ub - rtt->lb;
        for (int i = 0; i < n; i++) {
            long long cnt = rcs ? rcs[i] : rc, dsp = rcs ? displs[i] : (long long)i * rc;
            if ((long long)s2.contrib[i].size() != cnt * rtt->size) {
                char b[256]; snprintf(b, sizeof b, "%s: rank %d sent %zu bytes but root expects %lld", nm, i, s2.contrib[i].size(), cnt * rtt->size);
                violation("collective-mismatch", b);
            }
            type_unpack(s2.contrib[i].data(), (long long)s2.contrib[i].size(), (char *)rb + dsp * rext, cnt, *rtt);
        }
    }
    coll_leave(cm, slot_at(cm, s)); return MPI_SUCCESS;
}
int MPI_Gather(const void *sb, int sc, MPI_Datatype st, void *rb, int rc, MPI_Datatype rt, int root, MPI_Comm c) { return do_gather(sb, sc, st, rb, rc, nullptr, nullptr, rt, root, c, C_GATHER); }
int MPI_Gatherv(const void *sb, int sc, MPI_Datatype st, void *rb, const int *rcs, const int *displs, MPI_Datatype rt, int root, MPI_Comm c) { return do_gather(sb, sc, st, rb, 0, rcs, displs, rt, root, c, C_GATHERV); }
int MPI_Allgather(const void *sb, int sc, MPI_Datatype st, void *rb, int rc, MPI_Datatype rt, MPI_Comm c) {
    if (sb == MPI_IN_PLACE) { Comm &cm = comm_get(c, "MPI_Allgather"); int me = cm.rank_of(cur_rank()); auto rtt = type_lookup(rt, "MPI_Allgather"); return do_gather((char *)rb + (long long)me * rc * (rtt->ub - rtt->lb), rc, rt, rb, rc, nullptr, nullptr, rt, -1, c, C_ALLGATHER); }
    return do_gather(sb, sc, st, rb, rc, nullptr, nullptr, rt, -1, c, C_ALLGATHER);
}
int MPI_Alltoall(const void *sb, int sc, MPI_Datatype st, void *rb, int rc, MPI_Datatype rt, MPI_Comm c) {
    yield("MPI_Alltoall");
    Comm &cm = comm_get(c, "MPI_Alltoall"); int me = cm.rank_of(cur_rank()); long s = cm.seq[me]; int n = (int)cm.members.size();
    auto stt = type_lookup(st, "MPI_Alltoall", true); auto rtt = type_lookup(rt, "MPI_Alltoall", true);
    CollSlot &sl = coll_enter(cm, me, C_ALLTOALL, -1, 0, 0, (long long)sc * stt->size);
    sl.contrib[me].resize((size_t)sc * stt->size * n); type_pack(sb, (long long)sc * n, *stt, sl.contrib[me].data());
    block_until("MPI_Alltoall", [&cm, s, n]() { return slot_at(cm, s).arrived == n; });
    CollSlot &s2 = slot_at(cm, s); long long blk = (long long)sc * stt->size;
    for (int i = 0; i < n; i++) type_unpack(s2.contrib[i].data() + me * blk, blk, (char *)rb + (long long)i * rc * (rtt->ub - rtt->lb), rc, *rtt);
    coll_leave(cm, slot_at(cm, s)); return MPI_SUCCESS;
}

int MPI_Comm_dup(MPI_Comm c, MPI_Comm *nc) {
    yield("MPI_Comm_dup");
    Comm &cm = comm_get(c, "MPI_Comm_dup"); int me = cm.rank_of(cur_rank()); long s = cm.seq[me]; int n = (int)cm.members.size();
    CollSlot &sl = coll_enter(cm, me, C_COMM_DUP, -1, 0, 0, -1);
    if (!sl.evaluated) {
        auto nw = std::make_shared<Comm>(); nw->members = cm.members; nw->seq.assign(n, 0); nw->live.assign(n, 1); nw->in_lib = in_lib();
        sl.result_handle = comm_register(nw); sl.evaluated = true;
    }
    int h = sl.result_handle;
    block_until("MPI_Comm_dup", [&cm, s, n]() { return slot_at(cm, s).arrived == n; });
    *nc = h; if (in_lib()) rank_res_mut(cur_rank()).comms++;
    comms[h]->in_lib = comms[h]->in_lib || in_lib();
    coll_leave(cm, slot_at(cm, s)); return MPI_SUCCESS;
}
static int do_split(MPI_Comm c, int color, int key, MPI_Comm *nc, const char *nm) {
    yield(nm);
    Comm &cm = comm_get(c, nm); int me = cm.rank_of(cur_rank()); long s = cm.seq[me]; int n = (int)cm.members.size();
    CollSlot &sl = coll_enter(cm, me, C_COMM_SPLIT, -1, 0, 0, -1);
    sl.aux[me] = color; sl.aux2[me] = key;
    block_until(nm, [&cm, s, n]() { return slot_at(cm, s).arrived == n; });
    CollSlot &s2 = slot_at(cm, s);
    if (color == MPI_UNDEFINED) { *nc = MPI_COMM_NULL; coll_leave(cm, s2); return MPI_SUCCESS; }
    if (!s2.color_handle.count(color)) {
        std::vector<std::pair<long long, int>> mem;
        for (int i = 0; i < n; i++) if (s2.aux[i] == color) mem.push_back({s2.aux2[i], i});
        std::stable_sort(mem.begin(), mem.end());
        auto nw = std::make_shared<Comm>(); for (auto &m : mem) nw->members.push_back(cm.members[m.second]);
        nw->seq.assign(nw->members.size(), 0); nw->live.assign(nw->members.size(), 1); nw->in_lib = in_lib();
        s2.color_handle[color] = comm_register(nw);
    }
    *nc = s2.color_handle[color]; if (in_lib()) rank_res_mut(cur_rank()).comms++;
    coll_leave(cm, s2); return MPI_SUCCESS;
}
int MPI_Comm_split(MPI_Comm c, int color, int key, MPI_Comm *nc) { return do_split(c, color, key, nc, "MPI_Comm_split"); }
int MPI_Comm_split_type(MPI_Comm c, int, int key, MPI_Info, MPI_Comm *nc) { return do_split(c, g->cfg.node_of[cur_rank()], key, nc, "MPI_Comm_split_type"); }
int MPI_Comm_free(MPI_Comm *c) {
    if (*c == MPI_COMM_NULL) usage_error("MPI_Comm_free(MPI_COMM_NULL)");
    if (*c == MPI_COMM_WORLD || *c == MPI_COMM_SELF) usage_error("MPI_Comm_free on a predefined communicator");
    Comm &cm = comm_get(*c, "MPI_Comm_free"); int me = cm.rank_of(cur_rank());
    cm.live[me] = 0; if (cm.in_lib) rank_res_mut(cur_rank()).comms--;
    ev("MPI_Comm_free", *c);
    *c = MPI_COMM_NULL; return MPI_SUCCESS;
}

// ---- point to point
static std::shared_ptr<Msg> post_send(const void *buf, long long count, MPI_Datatype dt, int dest, int tag, MPI_Comm c, const char *nm) {
    Comm &cm = comm_get(c, nm); int me = cm.rank_of(cur_rank());
    auto t = type_lookup(dt, nm, true);
    if (dest < 0 || dest >= (int)cm.members.size()) usage_error(std::string(nm) + ": invalid destination rank");
    auto m = std::make_shared<Msg>(); m->src = me; m->tag = tag; m->id = msg_ids++;
    m->data.resize((size_t)count * t->size); type_pack(buf, count, *t, m->data.data());
    int h = (c == MPI_COMM_SELF) ? -1 - cur_rank() : c;
    queues[std::make_tuple(h, me, dest)].q.push_back(m);
    g->st.p2p++; ev(nm, dest, tag, (long)m->data.size());
    return m;
}
int MPI_Send(const void *buf, int count, MPI_Datatype dt, int dest, int tag, MPI_Comm c) {
    yield("MPI_Send");
    auto m = post_send(buf, count, dt, dest, tag, c, "MPI_Send");
    if (!g->rng_mpi.chance(g->cfg.eager_send)) block_until("MPI_Send(rendezvous)", [m]() { return m->matched; });
    return MPI_SUCCESS;
}
int MPI_Isend(const void *buf, int count, MPI_Datatype dt, int dest, int tag, MPI_Comm c, MPI_Request *rq) {
    yield("MPI_Isend");
    auto m = post_send(buf, count, dt, dest, tag, c, "MPI_Isend");
    Req r; r.is_recv = false; r.msg = m; r.done = g->rng_mpi.chance(g->cfg.eager_send); r.comm = c;
    *rq = new_req(r); return MPI_SUCCESS;
}
int MPI_Irecv(void *buf, int count, MPI_Datatype dt, int src, int tag, MPI_Comm c, MPI_Request *rq) {
    yield("MPI_Irecv");
    Comm &cm = comm_get(c, "MPI_Irecv");
    if (src < 0 || src >= (int)cm.members.size()) usage_error("MPI_Irecv: invalid source rank (wildcards unsupported in simmpi)");
    Req r; r.is_recv = true; r.buf = buf; r.count = count; r.type = type_lookup(dt, "MPI_Irecv", true); r.peer = src; r.tag = tag;
    r.comm = (c == MPI_COMM_SELF) ? -1 - cur_rank() : c;
    if (c == MPI_COMM_SELF) usage_error("MPI_Irecv on MPI_COMM_SELF unsupported in simmpi");
    *rq = new_req(r); ev("MPI_Irecv", src, tag); return MPI_SUCCESS;
}
static bool req_progress(int h) {
    Req &r = reqs[h];
    if (r.is_recv) return try_match(r);
    if (!r.done && r.msg->matched) r.done = true;
    return r.done;
}
int MPI_Waitall(int n, MPI_Request rq[], MPI_Status st[]) {
    yield("MPI_Waitall");
    for (int i = 0; i < n; i++) {
        if (rq[i] == MPI_REQUEST_NULL) continue;
        if (rq[i] <= 0 || rq[i] >= (int)reqs.size() || !reqs[rq[i]].live) usage_error("MPI_Waitall: invalid request handle");
    }
    std::vector<int> hs(rq, rq + n);
    block_until("MPI_Waitall", [hs]() { bool all = true; for (int h : hs) if (h != MPI_REQUEST_NULL && !req_progress(h)) all = false; return all; });
    for (int i = 0; i < n; i++) {
        if (rq[i] == MPI_REQUEST_NULL) continue;
        if (st != MPI_STATUSES_IGNORE) { st[i].MPI_SOURCE = reqs[rq[i]].peer; st[i].MPI_TAG = reqs[rq[i]].tag; st[i].MPI_ERROR = MPI_SUCCESS; st[i].sim_count = reqs[rq[i]].got; }
        free_req(rq[i]); rq[i] = MPI_REQUEST_NULL;
    }
    ev("MPI_Waitall", n);
    return MPI_SUCCESS;
}
int MPI_Wait(MPI_Request *rq, MPI_Status *st) { return MPI_Waitall(1, rq, st == MPI_STATUS_IGNORE ? MPI_STATUSES_IGNORE : st); }
int MPI_Recv(void *buf, int count, MPI_Datatype dt, int src, int tag, MPI_Comm c, MPI_Status *st) {
    MPI_Request r; MPI_Irecv(buf, count, dt, src, tag, c, &r); return MPI_Wait(&r, st);
}
int MPI_Get_count(const MPI_Status *st, MPI_Datatype dt, int *count) {
    auto t = type_lookup(dt, "MPI_Get_count");
    if (t->size == 0) { *count = st->sim_count == 0 ? 0 : MPI_UNDEFINED; return MPI_SUCCESS; }
    if (st->sim_count % t->size) { *count = MPI_UNDEFINED; return MPI_SUCCESS; }
    long long c = st->sim_count / t->size; *count = c > INT_MAX ? MPI_UNDEFINED : (int)c; return MPI_SUCCESS;
}
int MPI_Get_elements_x(const MPI_Status *st, MPI_Datatype dt, MPI_Count *count) {
    auto t = type_lookup(dt, "MPI_Get_elements_x"); int bs = t->basic ? basic_size(t->basic) : 1; *count = st->sim_count / (bs ? bs : 1); return MPI_SUCCESS;
}

// ---- info
static InfoObj &info_get(MPI_Info h, const char *who) {
    if (h <= 0 || h >= (int)infos.size()) usage_error(std::string(who) + ": invalid info handle");
    if (!infos[h].live) usage_error(std::string(who) + ": info object used after MPI_Info_free");
    return infos[h];
}
int MPI_Info_create(MPI_Info *info) {
    InfoObj o; o.live = true; o.owner = cur_rank(); o.in_lib = in_lib(); infos.push_back(o);
    if (o.in_lib) rank_res_mut(o.owner).infos++;
    *info = (int)infos.size() - 1; return MPI_SUCCESS;
}
int MPI_Info_dup(MPI_Info info, MPI_Info *ni) { auto kv = info_get(info, "MPI_Info_dup").kv; MPI_Info_create(ni); infos[*ni].kv = kv; return MPI_SUCCESS; }
int MPI_Info_free(MPI_Info *info) {
    if (*info == MPI_INFO_NULL) usage_error("MPI_Info_free(MPI_INFO_NULL)");
    InfoObj &o = info_get(*info, "MPI_Info_free"); o.live = false; if (o.in_lib) rank_res_mut(o.owner).infos--;
    *info = MPI_INFO_NULL; return MPI_SUCCESS;
}
int MPI_Info_set(MPI_Info info, const char *key, const char *value) {
    if (strlen(key) > MPI_MAX_INFO_KEY) return make_errcode(MPI_ERR_INFO_KEY);
    if (strlen(value) > MPI_MAX_INFO_VAL) return make_errcode(MPI_ERR_INFO_VALUE);
    info_get(info, "MPI_Info_set").kv[key] = value; return MPI_SUCCESS;
}
int MPI_Info_get(MPI_Info info, const char *key, int valuelen, char *value, int *flag) {
    InfoObj &o = info_get(info, "MPI_Info_get");
    auto it = o.kv.find(key);
    if (it == o.kv.end()) { *flag = 0; return MPI_SUCCESS; }
    *flag = 1; strncpy(value, it->second.c_str(), valuelen); value[valuelen] = 0; return MPI_SUCCESS;
}
int MPI_Info_get_nkeys(MPI_Info info, int *n) { *n = (int)info_get(info, "MPI_Info_get_nkeys").kv.size(); return MPI_SUCCESS; }
int MPI_Info_get_nthkey(MPI_Info info, int n, char *key) {
    InfoObj &o = info_get(info, "MPI_Info_get_nthkey"); if (n < 0 || n >= (int)o.kv.size()) return make_errcode(MPI_ERR_ARG);
    auto it = o.kv.begin(); std::advance(it, n); strcpy(key, it->first.c_str()); return MPI_SUCCESS;
}
int MPI_Info_get_valuelen(MPI_Info info, const char *key, int *len, int *flag) {
    InfoObj &o = info_get(info, "MPI_Info_get_valuelen"); auto it = o.kv.find(key);
    if (it == o.kv.end()) { *flag = 0; return MPI_SUCCESS; } *flag = 1; *len = (int)it->second.size(); return MPI_SUCCESS;
}
int MPI_Info_delete(MPI_Info info, const char *key) { info_get(info, "MPI_Info_delete").kv.erase(key); return MPI_SUCCESS; }
}

namespace sim {
std::map<std::string, std::string> info_kv(MPI_Info h) { if (h == MPI_INFO_NULL) return {}; return info_get(h, "info_kv").kv; }
}
