// SimFS: in-memory sparse files with visible/durable images + the POSIX seam the library object is
// redirected to (objcopy --redefine-sym open=pncv_open ...).
#include <deque>
#include "sim.hpp"
#include <cerrno>
#include <cstdarg>
#include <cstdio>
#include <fcntl.h>
#include <sys/stat.h>
#include <dirent.h>
#include <unistd.h>
#include <algorithm>

namespace sim {

RankRes &rank_res_mut(int rank);

uint8_t Image::at(uint64_t off) const {
    if (off >= size) return 0;
    auto it = pages.find(off >> 12);
    return it == pages.end() ? 0 : it->second->b[off & 4095];
}
void Image::read(uint64_t off, void *buf, uint64_t len) const {
    uint8_t *out = (uint8_t *)buf;
    while (len) {
        uint64_t pg = off >> 12, po = off & 4095, n = std::min<uint64_t>(len, 4096 - po);
        auto it = (off < size) ? pages.find(pg) : pages.end();
        if (it == pages.end()) memset(out, 0, n);
        else {
            memcpy(out, it->second->b + po, n);
            if (off + n > size) memset(out + (size - off), 0, off + n - size);
        }
        out += n; off += n; len -= n;
    }
}
std::vector<uint8_t> Image::bytes(uint64_t off, uint64_t len) const { std::vector<uint8_t> v(len); if (len) read(off, v.data(), len); return v; }

void Inode::write(uint64_t off, const void *buf, uint64_t len) {
    const uint8_t *in = (const uint8_t *)buf;
    if (len == 0) return;
    if (off + len > vis.size) vis.size = off + len;
    while (len) {
        uint64_t pg = off >> 12, po = off & 4095, n = std::min<uint64_t>(len, 4096 - po);
        auto &sp = vis.pages[pg];
        if (!sp) { sp = std::make_shared<Page>(); memset(sp->b, 0, 4096); }
        else if (sp.use_count() > 1) sp = std::make_shared<Page>(*sp);
        memcpy(sp->b + po, in, n);
        in += n; off += n; len -= n;
    }
}
void Inode::truncate(uint64_t nsize) {
    if (nsize < vis.size) {
        // drop whole pages beyond, zero the tail of the boundary page
        auto it = vis.pages.lower_bound((nsize + 4095) >> 12);
        vis.pages.erase(it, vis.pages.end());
        if (nsize & 4095) {
            auto pit = vis.pages.find(nsize >> 12);
            if (pit != vis.pages.end()) {
                if (pit->second.use_count() > 1) pit->second = std::make_shared<Page>(*pit->second);
                memset(pit->second->b + (nsize & 4095), 0, 4096 - (nsize & 4095));
            }
        }
    }
    vis.size = nsize;
}

std::vector<std::pair<uint64_t, uint64_t>> image_diff(const Image &a, const Image &b) {
    std::vector<std::pair<uint64_t, uint64_t>> out;
    auto add = [&](uint64_t lo, uint64_t hi) {
        if (!out.empty() && out.back().second == lo) out.back().second = hi; else out.push_back({lo, hi});
    };
    uint64_t maxsz = std::max(a.size, b.size);
    // iterate over union of page keys
    auto ia = a.pages.begin(), ib = b.pages.begin();
    static const Page zero = {};
    while (ia != a.pages.end() || ib != b.pages.end()) {
        uint64_t pg; const Page *pa = &zero, *pb = &zero;
        if (ib == b.pages.end() || (ia != a.pages.end() && ia->first < ib->first)) { pg = ia->first; pa = ia->second.get(); ++ia; }
        else if (ia == a.pages.end() || ib->first < ia->first) { pg = ib->first; pb = ib->second.get(); ++ib; }
        else { pg = ia->first; pa = ia->second.get(); pb = ib->second.get(); ++ia; ++ib; }
        if (pa == pb) continue;
        uint64_t base = pg << 12;
        for (uint64_t i = 0; i < 4096 && base + i < maxsz; i++) {
            uint8_t va = base + i < a.size ? pa->b[i] : 0, vb = base + i < b.size ? pb->b[i] : 0;
            if (va != vb) add(base + i, base + i + 1);
        }
    }
    return out;
}

std::string strip_prefix(const char *path) {
    std::string p = path ? path : "";
    // ROMIO-style file system prefix "xxx:" (only if it appears before any '/')
    size_t c = p.find(':');
    if (c != std::string::npos && p.find('/') != std::string::npos && c < p.find('/')) p = p.substr(c + 1);
    else if (c != std::string::npos && p.find('/') == std::string::npos && c > 1) p = p.substr(c + 1);
    return p;
}
std::shared_ptr<Inode> FS::lookup(const std::string &path, bool follow) {
    std::string p = path;
    for (int hop = 0; follow && hop < 8; hop++) { auto s = symlinks.find(p); if (s == symlinks.end()) break; p = s->second; }
    auto it = files.find(p);
    return it == files.end() ? nullptr : it->second;
}
std::shared_ptr<Inode> FS::create(const std::string &path) {
    std::string p = path;
    for (int hop = 0; hop < 8; hop++) { auto s = symlinks.find(p); if (s == symlinks.end()) break; p = s->second; }
    auto in = std::make_shared<Inode>();
    in->id = next_id++; in->vis.exists = true;
    files[p] = in;
    return in;
}
bool FS::unlink(const std::string &path) {
    if (symlinks.erase(path)) return true;
    return files.erase(path) > 0;
}
void FS::put_file(const std::string &path, const std::vector<uint8_t> &bytes) {
    auto in = create(path);
    in->write(0, bytes.data(), bytes.size());
    in->vis.size = bytes.size();
    in->durable = in->vis;
}

// ------------------------------------------------------------------ POSIX seam
struct FdEnt { std::shared_ptr<Inode> ino; uint64_t pos = 0; int flags = 0; int owner = -1; bool used = false; bool is_dir = false; std::string path; };
static std::deque<FdEnt> fds;   // deque: entries keep their address while other ranks open files during a yield
static const int FD_BASE = 100000;
void posix_reset() { fds.clear(); }
static FdEnt *getfd(int fd) { int i = fd - FD_BASE; if (i < 0 || i >= (int)fds.size() || !fds[i].used) return nullptr; return &fds[i]; }

static int posix_fault_counter_check(bool is_write, size_t &len, bool &eintr, const std::string &path) {
    // F_POSIX_SHORT: nth wrapped POSIX data call during op on rank
    eintr = false;
    if (!g) return 0;
    for (auto &f : g->faults) {
        if (f.kind != F_POSIX_SHORT || f.fired || f.rank != cur_rank() || f.op != cur_op()) continue;
        if (f.errclass == 1) { bool log = path.size() > 5 && (path.compare(path.size() - 5, 5, ".meta") == 0 || path.compare(path.size() - 5, 5, ".data") == 0); if (!log) continue; }   // errclass 1: burst-buffer log files only
        if (f.nth-- > 0) continue;
        f.fired = true; g->st.fault_fired[F_POSIX_SHORT]++;
        f.mpi_call = is_write ? "write" : "read"; f.site = lib_site(); f.bytes = (long)len;
        if (f.arg == 0) { eintr = true; return 1; }
        if (len > 1) len = std::max<size_t>(1, len / (size_t)f.arg);
        return 1;
    }
    return 0;
}
} // namespace sim

using namespace sim;

static bool simulated() { return g && cur_rank() >= 0; }

extern "C" {

int pncv_open(const char *path, int flags, ...) {
    mode_t mode = 0;
    if (flags & O_CREAT) { va_list ap; va_start(ap, flags); mode = va_arg(ap, mode_t); va_end(ap); }
    if (!simulated()) return open(path, flags, mode);
    yield("open"); g->st.posix++;
    std::string p = strip_prefix(path);
    auto ino = g->fs.lookup(p);
    if (ino && (flags & O_CREAT) && (flags & O_EXCL)) { errno = EEXIST; ev("posix_open", -1, EEXIST); return -1; }
    if (!ino) {
        if (!(flags & O_CREAT)) { errno = ENOENT; ev("posix_open", -1, ENOENT); return -1; }
        ino = g->fs.create(p);
    }
    if (flags & O_TRUNC) ino->truncate(0);
    int idx = -1;
    for (size_t i = 0; i < fds.size(); i++) if (!fds[i].used) { idx = (int)i; break; }
    if (idx < 0) { fds.push_back(FdEnt()); idx = (int)fds.size() - 1; }
    fds[idx] = FdEnt(); fds[idx].path = p; fds[idx].ino = ino; fds[idx].flags = flags; fds[idx].used = true; fds[idx].owner = cur_rank();
    ino->open_count++;
    rank_res_mut(cur_rank()).fds++;
    ev("posix_open", idx, flags);
    return FD_BASE + idx;
}
int pncv_close(int fd) {
    FdEnt *e = getfd(fd);
    if (!e) { if (!simulated()) return close(fd); errno = EBADF; return -1; }
    yield("close"); g->st.posix++;
    e->ino->open_count--;
    e->ino->durable = e->ino->vis;
    rank_res_mut(e->owner).fds--;
    e->used = false; e->ino.reset();
    ev("posix_close", fd - FD_BASE);
    return 0;
}
static ssize_t do_read(FdEnt *e, void *buf, size_t len, uint64_t off, bool adv) {
    bool eintr; posix_fault_counter_check(false, len, eintr, e->path);
    if (eintr) { errno = EINTR; return -1; }
    uint64_t sz = e->ino->vis.size;
    size_t n = off >= sz ? 0 : (size_t)std::min<uint64_t>(len, sz - off);
    if (n) e->ino->vis.read(off, buf, n);
    if (getenv("VERIF_DEBUG_IO")) fprintf(stderr, "  [io] r%d read %s off=%llu len=%zu first=%d\n", cur_rank(), e->path.c_str(), (unsigned long long)off, n, n ? ((const unsigned char *)buf)[0] : -1);
    if (adv) e->pos = off + n;
    g->st.bytes_read += n;
    return (ssize_t)n;
}
static ssize_t do_write(FdEnt *e, const void *buf, size_t len, uint64_t off, bool adv) {
    bool eintr; posix_fault_counter_check(true, len, eintr, e->path);
    if (eintr) { errno = EINTR; return -1; }
    if ((e->flags & O_ACCMODE) == O_RDONLY) { errno = EBADF; return -1; }
    if (getenv("VERIF_DEBUG_IO")) fprintf(stderr, "  [io] r%d write %s off=%llu len=%zu first=%d\n", cur_rank(), e->path.c_str(), (unsigned long long)off, len, len ? ((const unsigned char *)buf)[0] : -1);
    e->ino->write(off, buf, len);
    if (adv) e->pos = off + len;
    g->st.bytes_written += len;
    return (ssize_t)len;
}
ssize_t pncv_read(int fd, void *buf, size_t len) {
    FdEnt *e = getfd(fd);
    if (!e) { if (!simulated()) return read(fd, buf, len); errno = EBADF; return -1; }
    yield("read"); g->st.posix++;
    ssize_t r = do_read(e, buf, len, e->pos, true); ev("posix_read", fd - FD_BASE, (long)len, (long)r); return r;
}
ssize_t pncv_write(int fd, const void *buf, size_t len) {
    FdEnt *e = getfd(fd);
    if (!e) { if (!simulated()) return write(fd, buf, len); errno = EBADF; return -1; }
    yield("write"); g->st.posix++;
    uint64_t off = (e->flags & O_APPEND) ? e->ino->vis.size : e->pos;
    ssize_t r = do_write(e, buf, len, off, true); ev("posix_write", fd - FD_BASE, (long)len, (long)r); return r;
}
ssize_t pncv_pread(int fd, void *buf, size_t len, off_t off) {
    FdEnt *e = getfd(fd);
    if (!e) { if (!simulated()) return pread(fd, buf, len, off); errno = EBADF; return -1; }
    yield("pread"); g->st.posix++;
    ssize_t r = do_read(e, buf, len, (uint64_t)off, false); ev("posix_pread", fd - FD_BASE, (long)len, (long)off, (long)r); return r;
}
ssize_t pncv_pwrite(int fd, const void *buf, size_t len, off_t off) {
    FdEnt *e = getfd(fd);
    if (!e) { if (!simulated()) return pwrite(fd, buf, len, off); errno = EBADF; return -1; }
    yield("pwrite"); g->st.posix++;
    ssize_t r = do_write(e, buf, len, (uint64_t)off, false); ev("posix_pwrite", fd - FD_BASE, (long)len, (long)off, (long)r); return r;
}
off_t pncv_lseek(int fd, off_t off, int whence) {
    FdEnt *e = getfd(fd);
    if (!e) { if (!simulated()) return lseek(fd, off, whence); errno = EBADF; return -1; }
    uint64_t base = whence == SEEK_SET ? 0 : whence == SEEK_CUR ? e->pos : e->ino->vis.size;
    if ((long long)base + off < 0) { errno = EINVAL; return -1; }
    e->pos = base + off;
    return (off_t)e->pos;
}
int pncv_unlink(const char *path) {
    if (!simulated()) return unlink(path);
    yield("unlink"); g->st.posix++;
    bool ok = g->fs.unlink(strip_prefix(path));
    ev("posix_unlink", ok);
    if (!ok) { errno = ENOENT; return -1; }
    return 0;
}
int pncv_truncate(const char *path, off_t len) {
    if (!simulated()) return truncate(path, len);
    yield("truncate"); g->st.posix++;
    auto ino = g->fs.lookup(strip_prefix(path));
    if (!ino) { errno = ENOENT; return -1; }
    ino->truncate((uint64_t)len); ev("posix_truncate", (long)len);
    return 0;
}
int pncv_ftruncate(int fd, off_t len) {
    FdEnt *e = getfd(fd);
    if (!e) { if (!simulated()) return ftruncate(fd, len); errno = EBADF; return -1; }
    yield("ftruncate"); g->st.posix++;
    e->ino->truncate((uint64_t)len); ev("posix_ftruncate", (long)len);
    return 0;
}
int pncv_fsync(int fd) {
    FdEnt *e = getfd(fd);
    if (!e) { if (!simulated()) return fsync(fd); errno = EBADF; return -1; }
    e->ino->durable = e->ino->vis; return 0;
}
static void fill_stat(struct stat *st, Inode *ino, bool link) {
    memset(st, 0, sizeof *st);
    st->st_mode = link ? (S_IFLNK | 0777) : (S_IFREG | 0644);
    st->st_size = ino ? (off_t)ino->vis.size : 0; st->st_ino = ino ? ino->id : 0; st->st_nlink = 1; st->st_blksize = 4096;
}
int pncv_lstat(const char *path, struct stat *st) {
    if (!simulated()) return lstat(path, st);
    std::string p = strip_prefix(path);
    if (g->fs.symlinks.count(p)) { fill_stat(st, nullptr, true); return 0; }
    auto ino = g->fs.lookup(p, false);
    if (!ino) { errno = ENOENT; return -1; }
    fill_stat(st, ino.get(), false); return 0;
}
int pncv_stat(const char *path, struct stat *st) {
    if (!simulated()) return stat(path, st);
    auto ino = g->fs.lookup(strip_prefix(path));
    if (!ino) { errno = ENOENT; return -1; }
    fill_stat(st, ino.get(), false); return 0;
}
int pncv_access(const char *path, int mode) {
    if (!simulated()) return access(path, mode);
    auto ino = g->fs.lookup(strip_prefix(path));
    if (!ino) { errno = ENOENT; return -1; }
    return 0;
}
// directories: every directory exists in SimFS
static int dir_token;
DIR *pncv_opendir(const char *path) { if (!simulated()) return opendir(path); { std::string p = strip_prefix(path); while (p.size() > 1 && p.back() == '/') p.pop_back(); if (g->fs.lookup(p)) { errno = ENOTDIR; return nullptr; } }   /* a regular file is not a directory; every other path is an existing directory */ return (DIR *)&dir_token; }
int pncv_closedir(DIR *d) { if ((void *)d == (void *)&dir_token) return 0; return closedir(d); }
void *pncv_malloc(size_t);
char *pncv_realpath(const char *path, char *resolved) {
    if (!simulated()) return realpath(path, resolved);
    std::string p = strip_prefix(path);
    if (p.empty()) { errno = ENOENT; return nullptr; }
    if (p[0] != '/') p = "/simcwd/" + p;
    // normalise "./" and "//"
    std::string o;
    for (size_t i = 0; i < p.size(); i++) {
        if (p[i] == '/' && !o.empty() && o.back() == '/') continue;
        if (p[i] == '.' && i + 1 < p.size() && p[i + 1] == '/' && !o.empty() && o.back() == '/') { i++; continue; }
        o += p[i];
    }
    while (o.size() > 1 && o.back() == '/') o.pop_back();
    if (o.size() >= 2 && o.compare(o.size() - 2, 2, "/.") == 0) o.resize(o.size() - 2);
    if (o.empty()) o = "/";
    if (!resolved) resolved = (char *)pncv_malloc(o.size() + 1 > 4096 ? o.size() + 1 : 4096);
    strcpy(resolved, o.c_str());
    return resolved;
}
void pncv___assert_fail(const char *expr, const char *file, unsigned line, const char *func) {
    char b[512]; snprintf(b, sizeof b, "assert(%s) failed at %s:%u in %s", expr, file, line, func);
    if (simulated()) violation("assert", b);
    fprintf(stderr, "%s\n", b); abort();
}
int pncv_printf(const char *fmt, ...) {
    if (simulated() && !getenv("VERIF_LIBOUT")) { probe("lib_printf"); return 0; }
    va_list ap; va_start(ap, fmt); int r = vprintf(fmt, ap); va_end(ap); return r;
}
int pncv_fprintf(FILE *f, const char *fmt, ...) {
    if (simulated() && (f == stderr || f == stdout) && !getenv("VERIF_LIBOUT")) { probe("lib_printf"); return 0; }
    va_list ap; va_start(ap, fmt); int r = vfprintf(f, fmt, ap); va_end(ap); return r;
}
int pncv_puts(const char *s) { if (simulated() && !getenv("VERIF_LIBOUT")) return 0; return puts(s); }
size_t pncv_fwrite(const void *p, size_t a, size_t b, FILE *f) {
    if (simulated() && (f == stderr || f == stdout) && !getenv("VERIF_LIBOUT")) return b;
    return fwrite(p, a, b, f);
}
}
