// simcore: fibers, seeded scheduler, event log, per-rank library globals, allocation seam.
#include "sim.hpp"
#ifndef _GNU_SOURCE
#define _GNU_SOURCE
#endif
#include <ucontext.h>
#include <sys/mman.h>
#include <elf.h>
#include <link.h>
#include <fcntl.h>
#include <unistd.h>
#include <cstdio>
#include <cstdlib>
#include <cstdarg>
#include <algorithm>
#include <unordered_map>

#if defined(__SANITIZE_ADDRESS__)
#define SIM_ASAN 1
#elif defined(__has_feature)
#if __has_feature(address_sanitizer)
#define SIM_ASAN 1
#endif
#endif
#ifdef SIM_ASAN
#include <sanitizer/asan_interface.h>
#include <sanitizer/common_interface_defs.h>
#endif

// linker-provided bounds of the renamed writable sections of the library
extern "C" {
extern char __start_pnc_data[] __attribute__((weak)), __stop_pnc_data[] __attribute__((weak));
extern char __start_pnc_bss[] __attribute__((weak)), __stop_pnc_bss[] __attribute__((weak));
extern char __start_pnc_drl[] __attribute__((weak)), __stop_pnc_drl[] __attribute__((weak));
extern char __start_pnc_drel[] __attribute__((weak)), __stop_pnc_drel[] __attribute__((weak));
}

namespace sim {

Sim *g = nullptr;
const char *fault_kind_name[] = {"io-error", "open-error", "close-error", "sync-error", "setsize-error",
                                 "delete-error", "setview-error", "posix-short-io", "io-error-zero-byte"};

// ------------------------------------------------------------------ globals swap
struct Region { char *lo, *hi; };
static std::vector<Region> g_regions;
static std::vector<char> g_pristine;
static size_t g_gsize = 0;

__attribute__((no_sanitize("address"))) static void copy_out(char *dst) {
    for (auto &r : g_regions) { size_t n = r.hi - r.lo; for (size_t i = 0; i < n; i++) dst[i] = r.lo[i]; dst += n; }
}
__attribute__((no_sanitize("address"))) static void copy_in(const char *src) {
    for (auto &r : g_regions) { size_t n = r.hi - r.lo; for (size_t i = 0; i < n; i++) r.lo[i] = src[i]; src += n; }
}
extern "C" { struct pnc_global { int sec; unsigned long off, size; }; extern const struct pnc_global pnc_globals[]; }
void globals_init() {
    g_regions.clear();
    if (__start_pnc_data || __start_pnc_bss) {
        for (int i = 0; pnc_globals[i].sec >= 0; i++) {
            char *base = pnc_globals[i].sec == 0 ? __start_pnc_data : __start_pnc_bss;
            if (!base || !pnc_globals[i].size) continue;
            g_regions.push_back({base + pnc_globals[i].off, base + pnc_globals[i].off + pnc_globals[i].size});
        }
        g_gsize = 0; for (auto &r : g_regions) g_gsize += r.hi - r.lo;
        g_pristine.assign(g_gsize, 0); copy_out(g_pristine.data());
        return;
    }
    if (__start_pnc_data && __stop_pnc_data > __start_pnc_data) g_regions.push_back({__start_pnc_data, __stop_pnc_data});
    if (__start_pnc_bss && __stop_pnc_bss > __start_pnc_bss) g_regions.push_back({__start_pnc_bss, __stop_pnc_bss});
    if (__start_pnc_drl && __stop_pnc_drl > __start_pnc_drl) g_regions.push_back({__start_pnc_drl, __stop_pnc_drl});
    if (__start_pnc_drel && __stop_pnc_drel > __start_pnc_drel) g_regions.push_back({__start_pnc_drel, __stop_pnc_drel});
    g_gsize = 0;
    for (auto &r : g_regions) g_gsize += r.hi - r.lo;
    g_pristine.assign(g_gsize, 0);
    copy_out(g_pristine.data());
}

// ------------------------------------------------------------------ fibers
static const size_t STACK_SZ = 1 << 20;
struct Fiber {
    ucontext_t ctx;
    char *stack = nullptr;
    bool done = false, started = false, blocked = false, started_once = false;
    std::function<bool()> pred;
    const char *what = "";
    std::string desc;
    std::vector<char> globals;
    int cur_op = -1; bool in_lib = false;
    RankRes res;
#ifdef SIM_ASAN
    void *fake = nullptr;
#endif
};
static std::vector<Fiber> fibers;   // sized to max ranks once (stacks reused)
static ucontext_t main_ctx;
static int current = -1;
static bool abort_run = false;
static const RankMain *rank_main_fn = nullptr;
#ifdef SIM_ASAN
static void *main_fake = nullptr; static const void *main_bottom = nullptr; static size_t main_size = 0;
#endif

static void ensure_fibers(int n) {
    if ((int)fibers.size() < n) fibers.resize(n);
    for (int i = 0; i < n; i++)
        if (!fibers[i].stack) {
            char *p = (char *)mmap(nullptr, STACK_SZ + 4096, PROT_READ | PROT_WRITE, MAP_PRIVATE | MAP_ANONYMOUS, -1, 0);
            mprotect(p, 4096, PROT_NONE);
            fibers[i].stack = p + 4096;
        }
}

static void switch_to_main() {
#ifdef SIM_ASAN
    Fiber &f = fibers[current];
    __sanitizer_start_switch_fiber(f.done ? nullptr : &f.fake, main_bottom, main_size);
#endif
    int me = current;
    swapcontext(&fibers[me].ctx, &main_ctx);
#ifdef SIM_ASAN
    __sanitizer_finish_switch_fiber(fibers[me].fake, &main_bottom, &main_size);
#endif
}

static void fiber_entry() {
#ifdef SIM_ASAN
    __sanitizer_finish_switch_fiber(nullptr, &main_bottom, &main_size);
#endif
    int me = current;
    (*rank_main_fn)(me);
    fibers[me].done = true;
    switch_to_main();
    abort(); // never resumed
}

int cur_rank() { return current; }
void set_cur_op(int op) { if (current >= 0) fibers[current].cur_op = op; }
int cur_op() { return current >= 0 ? fibers[current].cur_op : -1; }
void set_in_lib(bool v) { if (current >= 0) fibers[current].in_lib = v; }
bool in_lib() { return current >= 0 && fibers[current].in_lib; }
void set_rank_desc(const std::string &d) { if (current >= 0) fibers[current].desc = d; }

static inline uint64_t mix(uint64_t h, uint64_t v) {
    h ^= v + 0x9e3779b97f4a7c15ULL + (h << 6) + (h >> 2);
    return h * 0xff51afd7ed558ccdULL;
}
static uint64_t strhash(const char *s) { uint64_t h = 1469598103934665603ULL; while (*s) { h ^= (unsigned char)*s++; h *= 1099511628211ULL; } return h; }

void ev(const char *kind, long a, long b, long c, long d) {
    if (!g) return;
    g->st.events++;
    uint64_t h = g->st.ev_hash;
    h = mix(h, strhash(kind)); h = mix(h, (uint64_t)(current + 1)); h = mix(h, a); h = mix(h, b); h = mix(h, c); h = mix(h, d);
    g->st.ev_hash = h;
    if (g->trace) {
        char buf[256];
        snprintf(buf, sizeof buf, "[%ld] r%d op%d %s %ld %ld %ld %ld\n", g->st.events, current, cur_op(), kind, a, b, c, d);
        g->trace_text += buf;
    }
}
void probe(const char *name, long n) { if (g) g->probes[name] += n; }

void yield(const char *what) {
    if (current < 0) return;
    fibers[current].what = what;
    fibers[current].blocked = false;
    switch_to_main();
}
void block_until(const char *what, const std::function<bool()> &pred) {
    if (current < 0) { if (!pred()) { fprintf(stderr, "sim: block_until outside fiber would hang: %s\n", what); abort(); } return; }
    Fiber &f = fibers[current];
    while (!pred()) {
        f.what = what; f.blocked = true; f.pred = pred;
        switch_to_main();
    }
    f.blocked = false; f.pred = nullptr;
}
void soft_violation(const std::string &kind, const std::string &detail) {
    ViolationInfo v; v.kind = kind; v.detail = detail; v.rank = current; v.op = cur_op();
    if (g) g->violations.push_back(v);
}
void violation(const std::string &kind, const std::string &detail) {
    soft_violation(kind, detail);
    if (current < 0) { fprintf(stderr, "sim: violation outside fiber: %s %s\n", kind.c_str(), detail.c_str()); abort(); }
    abort_run = true;
    fibers[current].done = false;
    switch_to_main();
    abort();
}

// ------------------------------------------------------------------ allocation seam
struct AInfo { size_t size; int rank; int op; };
static std::unordered_map<void *, AInfo> *allocs;
static long live_bytes_total = 0;
static void track(void *p, size_t n) {
    if (!p || !allocs) return;
    (*allocs)[p] = AInfo{n, current, cur_op()};
    if (current >= 0) { fibers[current].res.live_blocks++; fibers[current].res.live_bytes += n; }
    live_bytes_total += n;
    if (g) { if (live_bytes_total > g->st.peak_alloc) g->st.peak_alloc = live_bytes_total; if ((long)n > g->st.max_single_alloc) g->st.max_single_alloc = n; }
}
static bool untrack(void *p) {
    if (!p || !allocs) return true;
    auto it = allocs->find(p);
    if (it == allocs->end()) return false;
    int r = it->second.rank;
    if (r >= 0 && r < (int)fibers.size()) { fibers[r].res.live_blocks--; fibers[r].res.live_bytes -= it->second.size; }
    live_bytes_total -= it->second.size;
    allocs->erase(it);
    return true;
}
RankRes rank_resources(int rank) { return fibers[rank].res; }
RankRes &rank_res_mut(int rank) { static RankRes dummy; if (rank < 0 || rank >= (int)fibers.size()) return dummy; return fibers[rank].res; }
std::string rank_resources_detail(int rank) {
    std::string s; int n = 0;
    // deterministic: sort by (op,size)
    std::vector<std::pair<int, size_t>> v;
    if (allocs) for (auto &kv : *allocs) if (kv.second.rank == rank) v.push_back({kv.second.op, kv.second.size});
    std::sort(v.begin(), v.end());
    for (auto &e : v) { if (n++ > 8) { s += " ..."; break; } s += " [op" + std::to_string(e.first) + ":" + std::to_string(e.second) + "B]"; }
    return s;
}

// ------------------------------------------------------------------ symbolisation
struct Sym { uintptr_t addr; size_t size; std::string name; };
static std::vector<Sym> syms; static bool syms_loaded = false; static uintptr_t load_base = 0;
static int phdr_cb(struct dl_phdr_info *info, size_t, void *) { load_base = info->dlpi_addr; return 1; }
static void load_syms() {
    syms_loaded = true;
    dl_iterate_phdr(phdr_cb, nullptr);
    int fd = open("/proc/self/exe", O_RDONLY);
    if (fd < 0) return;
    off_t len = lseek(fd, 0, SEEK_END);
    void *m = mmap(nullptr, len, PROT_READ, MAP_PRIVATE, fd, 0);
    close(fd);
    if (m == MAP_FAILED) return;
    auto *eh = (Elf64_Ehdr *)m;
    auto *sh = (Elf64_Shdr *)((char *)m + eh->e_shoff);
    for (int i = 0; i < eh->e_shnum; i++) {
        if (sh[i].sh_type != SHT_SYMTAB) continue;
        auto *st = (Elf64_Sym *)((char *)m + sh[i].sh_offset);
        size_t n = sh[i].sh_size / sizeof(Elf64_Sym);
        const char *str = (char *)m + sh[sh[i].sh_link].sh_offset;
        for (size_t k = 0; k < n; k++)
            if (ELF64_ST_TYPE(st[k].st_info) == STT_FUNC && st[k].st_value)
                syms.push_back({(uintptr_t)st[k].st_value + load_base, (size_t)st[k].st_size, str + st[k].st_name});
    }
    munmap(m, len);
    std::sort(syms.begin(), syms.end(), [](const Sym &a, const Sym &b) { return a.addr < b.addr; });
}
std::string symbolize(void *addr) {
    if (!syms_loaded) load_syms();
    uintptr_t a = (uintptr_t)addr;
    auto it = std::upper_bound(syms.begin(), syms.end(), a, [](uintptr_t v, const Sym &s) { return v < s.addr; });
    if (it == syms.begin()) return "?";
    --it;
    if (a >= it->addr + std::max<size_t>(it->size, 1) + 16) return "?";
    return it->name;
}
static bool sim_helper_name(const std::string &nm) {
    static const char *h[] = {"do_reduce", "do_gather", "do_split", "do_io", "post_send", "req_progress", "fcoll_enter", "fcoll_wait", "coll_enter", nullptr};
    for (int i = 0; h[i]; i++) if (nm == h[i]) return true;
    return false;
}
__attribute__((no_sanitize("address"))) static std::string walk_frames(int rank, uintptr_t *fp) {
    std::string out; int n = 0;
    uintptr_t lo = (uintptr_t)fibers[rank].stack, hi = lo + STACK_SZ;
    std::string last;
    for (int depth = 0; depth < 64; depth++) {
        if ((uintptr_t)fp < lo || (uintptr_t)fp + 16 > hi) break;
        uintptr_t ret = fp[1];
        uintptr_t *nfp = (uintptr_t *)fp[0];
        if (ret) {
            std::string nm = symbolize((void *)(ret - 1));
            bool simf = nm.compare(0, 4, "MPI_") == 0 || nm.compare(0, 2, "_Z") == 0 || nm.compare(0, 5, "pncv_") == 0 || nm == "?" || sim_helper_name(nm);
            if (!simf && nm != last) { if (n) out += "<"; out += nm; last = nm; if (++n >= 5) break; }
            if (nm.compare(0, 6, "ncmpi_") == 0) break;
        }
        if (nfp <= fp) break;
        fp = nfp;
    }
    return out;
}
std::string fiber_site(int rank) {   // call chain of a suspended fiber (hang reports)
    if (rank < 0 || rank >= (int)fibers.size() || !fibers[rank].started_once) return "";
    return walk_frames(rank, (uintptr_t *)fibers[rank].ctx.uc_mcontext.gregs[REG_RBP]);
}
__attribute__((no_sanitize("address"))) std::string lib_site(int) {
    if (current < 0) return "";
    return walk_frames(current, (uintptr_t *)__builtin_frame_address(0));
}
__attribute__((no_sanitize("address"))) std::string lib_site_old(int) {
    // walk frame pointers within the current fiber stack
    std::string out; int n = 0;
    if (current < 0) return out;
    uintptr_t lo = (uintptr_t)fibers[current].stack, hi = lo + STACK_SZ;
    uintptr_t *fp = (uintptr_t *)__builtin_frame_address(0);
    std::string last;
    for (int depth = 0; depth < 64; depth++) {
        if ((uintptr_t)fp < lo || (uintptr_t)fp + 16 > hi) break;
        uintptr_t ret = fp[1];
        uintptr_t *nfp = (uintptr_t *)fp[0];
        if (ret) {
            std::string nm = symbolize((void *)(ret - 1));
            bool simf = nm.compare(0, 4, "MPI_") == 0 || nm.compare(0, 2, "_Z") == 0 || nm.compare(0, 5, "pncv_") == 0 || nm == "?" ;
            if (!simf && nm != last) { if (n) out += "<"; out += nm; last = nm; if (++n >= 5) break; }
            if (nm.compare(0, 6, "ncmpi_") == 0) break;
        }
        if (nfp <= fp) break;
        fp = nfp;
    }
    return out;
}

// ------------------------------------------------------------------ scheduler
void run(Sim &s, const RankMain &fn) {
    g = &s;
    int n = s.cfg.nprocs;
    uint64_t sd = s.seed;
    uint64_t a = Rng::splitmix(sd), b = Rng::splitmix(sd), c = Rng::splitmix(sd);
    s.rng_sched.reseed(a); s.rng_fault.reseed(b); s.rng_mpi.reseed(c);
    if (s.cfg.node_of.size() != (size_t)n) { s.cfg.node_of.assign(n, 0); }
    ensure_fibers(n);
    if (!allocs) allocs = new std::unordered_map<void *, AInfo>();
    live_bytes_total = 0;
    mpi_reset(n);
    rank_main_fn = &fn;
    abort_run = false;
    for (int i = 0; i < n; i++) {
        Fiber &f = fibers[i];
        f.done = false; f.started = false; f.started_once = false; f.blocked = false; f.pred = nullptr; f.what = "start"; f.desc.clear();
        f.globals = g_pristine; f.cur_op = -1; f.in_lib = false; f.res = RankRes();
#ifdef SIM_ASAN
        __asan_unpoison_memory_region(f.stack, STACK_SZ);
        f.fake = nullptr;
#endif
        getcontext(&f.ctx);
        f.ctx.uc_stack.ss_sp = f.stack; f.ctx.uc_stack.ss_size = STACK_SZ; f.ctx.uc_link = nullptr;
        makecontext(&f.ctx, (void (*)())fiber_entry, 0);
    }
    int last = -1;
    long decision = 0; size_t dev_i = 0;
    std::vector<int> runnable;
    while (true) {
        runnable.clear();
        bool all_done = true;
        for (int i = 0; i < n; i++) {
            Fiber &f = fibers[i];
            if (f.done) continue;
            all_done = false;
            if (f.blocked) { if (f.pred && f.pred()) runnable.push_back(i); }
            else runnable.push_back(i);
        }
        if (all_done) break;
        if (runnable.empty()) {
            std::string d;
            for (int i = 0; i < n; i++) {
                Fiber &f = fibers[i];
                d += "rank" + std::to_string(i) + ":" + (f.done ? "done" : std::string(f.what) + "{" + f.desc + "}[" + fiber_site(i) + "]") + " ";
            }
            current = -1;
            soft_violation("hang", d);
            break;
        }
        // default policy: keep running the last rank if runnable else lowest runnable
        int pick = runnable[0];
        for (int r : runnable) if (r == last) pick = r;
        if (runnable.size() > 1) {
            if (s.cfg.explicit_schedule) {
                while (dev_i < s.cfg.deviations.size() && s.cfg.deviations[dev_i].first < decision) dev_i++;
                if (dev_i < s.cfg.deviations.size() && s.cfg.deviations[dev_i].first == decision) {
                    int want = s.cfg.deviations[dev_i].second;
                    // interpreted modulo the runnable set so that shrunk schedules stay valid
                    pick = runnable[(size_t)want % runnable.size()];
                    s.taken_deviations.push_back({decision, want});
                }
            } else {
                bool dev = s.rng_sched.chance(s.cfg.deviate);
                if (dev) {
                    int want = (int)s.rng_sched.below(runnable.size());
                    if (runnable[want] != pick) { pick = runnable[want]; s.taken_deviations.push_back({decision, want}); }
                }
                if (s.cfg.starve_rank >= 0 && pick == s.cfg.starve_rank && decision >= s.cfg.starve_from &&
                    decision < s.cfg.starve_from + s.cfg.starve_len) {
                    for (size_t k = 0; k < runnable.size(); k++)
                        if (runnable[k] != s.cfg.starve_rank) { pick = runnable[k]; s.taken_deviations.push_back({decision, (int)k}); break; }
                }
            }
            decision++;
        }
        s.st.steps++;
        if (pick != last) s.st.switches++;
        s.st.ilv_hash = mix(mix(s.st.ilv_hash, pick + 1), strhash(fibers[pick].what));
        if (s.st.steps > s.cfg.max_steps) { current = -1; soft_violation("livelock", "scheduler step budget exceeded"); break; }
        // switch in
        current = pick; last = pick;
        Fiber &f = fibers[pick]; f.started_once = true;
        copy_in(f.globals.data());
#ifdef SIM_ASAN
        __sanitizer_start_switch_fiber(&main_fake, f.stack, STACK_SZ);
#endif
        swapcontext(&main_ctx, &f.ctx);
#ifdef SIM_ASAN
        __sanitizer_finish_switch_fiber(main_fake, nullptr, nullptr);
#endif
        copy_out(f.globals.data());
        current = -1;
        if (abort_run) break;
    }
    current = -1;
    rank_main_fn = nullptr;
}

void end_run_cleanup() {
    // free whatever the library still holds (after oracles have looked at the accounting)
    if (allocs) {
        std::vector<void *> v; v.reserve(allocs->size());
        for (auto &kv : *allocs) v.push_back(kv.first);
        for (void *p : v) free(p);
        allocs->clear();
    }
    live_bytes_total = 0;
    copy_in(g_pristine.data());
}

} // namespace sim

// ---------------------------------------------------------------------- C seams used by the library object
extern "C" {
static void refuse_huge(size_t n) {
    // our programs and files are tiny: a single request above 256 MiB can only come from an unvalidated count (C19 "memory related to the size of the file")
    if (sim::g) sim::g->st.max_single_alloc = (long)std::min<size_t>(n, (size_t)1 << 62);
    if (sim::g && sim::cur_rank() >= 0) sim::violation("oracle:alloc-bound", "single allocation of " + std::to_string(n) + " bytes requested @" + sim::lib_site());
}
void *pncv_malloc(size_t n) { if (n > (1ULL << 28)) { refuse_huge(n); return nullptr; } void *p = malloc(n); if (p && n) memset(p, 0xCB, n); /* deterministic content of uninitialised library memory */ sim::track(p, n); return p; }
void *pncv_calloc(size_t a, size_t b) { if (a && b > (1ULL << 28) / a) { refuse_huge(a * b); return nullptr; } void *p = calloc(a, b); sim::track(p, a * b); return p; }
void *pncv_realloc(void *q, size_t n) {
    if (n > (1ULL << 28)) { refuse_huge(n); return nullptr; }
    size_t oldn = 0;
    if (q && sim::allocs) { auto it = sim::allocs->find(q); if (it != sim::allocs->end()) oldn = it->second.size; }
    if (q) sim::untrack(q);
    void *p = realloc(q, n);
    if (p && n > oldn) memset((char *)p + oldn, 0xCB, n - oldn);
    if (n || p) sim::track(p, n);
    return p;
}
void pncv_free(void *p) {
    if (!p) return;
    if (!sim::untrack(p) && sim::g && sim::cur_rank() >= 0) {
        // freeing something the library did not allocate through the seam: let ASan/glibc judge it
    }
    free(p);
}
char *pncv_strdup(const char *s) { size_t n = strlen(s) + 1; char *p = (char *)malloc(n); memcpy(p, s, n); sim::track(p, n); return p; }
char *pncv_getenv(const char *name) {
    if (sim::g && sim::cur_rank() >= 0) {
        auto it = sim::g->cfg.env.find(name);
        if (it == sim::g->cfg.env.end()) return nullptr;
        return (char *)it->second.c_str();
    }
    return getenv(name);
}
long pnc_verif_knob(const char *name, long dflt) {
    if (sim::g) { auto it = sim::g->cfg.knobs.find(name); if (it != sim::g->cfg.knobs.end()) return it->second; }
    return dflt;
}
}
