// simmpi internal declarations shared by dtype.cpp / mpi.cpp / mpiio.cpp
#pragma once
#include "sim.hpp"
#include "mpi.h"
#include <memory>
#include <vector>
#include <string>
#include <deque>

namespace sim {

struct Seg { long long off; long long len; };

struct TypeObj {
    int combiner = MPI_COMBINER_NAMED;
    std::vector<int> ints; std::vector<MPI_Aint> aints; std::vector<std::shared_ptr<TypeObj>> types;
    std::vector<int> type_handles_named; // for named children: predefined handle
    std::vector<Seg> segs;       // typemap order, adjacent merged
    long long size = 0, lb = 0, ub = 0, true_lb = 0, true_ub = 0;
    bool committed = false;
    int named = 0;               // predefined handle number (if named)
    int basic = 0;               // predefined handle of the single basic element type, 0 if mixed/none
    bool contiguous() const { return segs.size() <= 1 && (segs.empty() || (segs[0].len == size)); }
};

struct TypeSlot { std::shared_ptr<TypeObj> obj; bool live = false; int owner = -1; bool in_lib = false; std::string site; };
std::shared_ptr<TypeObj> type_lookup(MPI_Datatype h, const char *who, bool need_commit = false);
MPI_Datatype type_register(std::shared_ptr<TypeObj> t);
void types_reset();
int basic_size(int named);

// copy between typed user memory and a packed byte stream
void type_pack(const void *buf, long long count, const TypeObj &t, uint8_t *out);   // out has count*size bytes
void type_unpack(const uint8_t *in, long long nbytes, void *buf, long long count, const TypeObj &t);

[[noreturn]] void usage_error(const std::string &what);
int make_errcode(int cls);

} // namespace sim
