// simmpi MPI-IO on SimFS: views, explicit-offset and individual-pointer access, collective matching,
// caller-obligation checks, fault injection.
#include "mpi_int.hpp"
#include <algorithm>
#include <climits>
#include <cstdio>

namespace sim {

RankRes &rank_res_mut(int rank);
std::vector<int> comm_members(MPI_Comm c);
std::map<std::string, std::string> info_kv(MPI_Info h);

enum FKind { FK_OPEN = 1, FK_CLOSE, FK_SET_VIEW, FK_SYNC, FK_SET_SIZE, FK_READ_ALL, FK_WRITE_ALL, FK_READ_AT_ALL, FK_WRITE_AT_ALL };
static const char *fk_name(int k) {
    static const char *n[] = {"?", "MPI_File_open", "MPI_File_close", "MPI_File_set_view", "MPI_File_sync", "MPI_File_set_size", "MPI_File_read_all",
                              "MPI_File_write_all", "MPI_File_read_at_all", "MPI_File_write_at_all"};
    return (k >= 1 && k <= 9) ? n[k] : "?";
}
// explicit-offset and individual-pointer collective transfers of the same direction match each other: PnetCDF deliberately pairs
// MPI_File_write_at_all with a zero-length MPI_File_write_all (ncmpio_getput_zero_req) and every MPI-IO implementation accepts it
static int fk_family(int k) { return k == FK_READ_AT_ALL ? FK_READ_ALL : k == FK_WRITE_AT_ALL ? FK_WRITE_ALL : k; }
struct View { long long disp = 0; std::shared_ptr<TypeObj> etype, ftype; long long fp = 0; std::vector<long long> prefix; };
struct FSlot { int kind = 0; int arrived = 0, left = 0; std::vector<char> here; std::string first_site; int first_rank = -1; long long sig = -1; };
struct File {
    bool live = false; std::shared_ptr<Inode> ino; std::string path; int amode = 0;
    std::vector<int> members; std::vector<char> open_for; std::vector<View> views; std::vector<long> seq; long base = 0; std::deque<FSlot> slots;
    std::map<std::string, std::string> info; bool in_lib = false;
    int rank_of(int world) const { for (size_t i = 0; i < members.size(); i++) if (members[i] == world) return (int)i; return -1; }
};
static std::vector<std::shared_ptr<File>> files;
struct Pending { int handle; int rc; int taken; };
static std::map<std::string, Pending> pend;   // collective-open rendezvous: key = path + members
void files_reset() { files.clear(); files.push_back(nullptr); pend.clear(); }

static File &file_get(MPI_File fh, const char *who) {
    if (fh <= 0 || fh >= (int)files.size() || !files[fh]) usage_error(std::string(who) + ": invalid file handle " + std::to_string(fh));
    File &f = *files[fh]; int r = f.rank_of(cur_rank());
    if (r < 0 || !f.open_for[r]) usage_error(std::string(who) + ": file handle used after MPI_File_close (or by a non-member)");
    return f;
}
static void set_default_view(View &v) { v.disp = 0; v.etype = type_lookup(MPI_BYTE, "view"); v.ftype = v.etype; v.fp = 0; v.prefix.clear(); }

// match a file collective; returns slot index
static long fcoll_enter(File &f, int me, int kind, long long sig) {
    long s = f.seq[me]++;
    while ((long)f.slots.size() <= s - f.base) { f.slots.emplace_back(); f.slots.back().here.assign(f.members.size(), 0); }
    FSlot &sl = f.slots[s - f.base];
    g->st.fcoll++;
    if (sl.arrived == 0) { sl.kind = kind; sl.first_site = lib_site(); sl.first_rank = cur_rank(); sl.sig = sig; }
    else if (fk_family(sl.kind) != fk_family(kind) || (sig >= 0 && sl.sig >= 0 && sig != sl.sig)) {
        char buf[768];
        snprintf(buf, sizeof buf, "rank %d called %s at [%s] but rank %d called %s at [%s] as file collective #%ld on %s",
                 cur_rank(), fk_name(kind), lib_site().c_str(), sl.first_rank, fk_name(sl.kind), sl.first_site.c_str(), s, f.path.c_str());
        violation("collective-mismatch", buf);
    }
    sl.here[me] = 1; sl.arrived++;
    return s;
}
static void fcoll_wait(File &f, long s, const char *nm) {
    int n = (int)f.members.size(); File *fp = &f;
    block_until(nm, [fp, s, n]() { return fp->slots[s - fp->base].arrived == n; });
}
static void fcoll_leave(File &f, long s) {
    f.slots[s - f.base].left++;
    while (!f.slots.empty() && f.slots.front().left == (int)f.members.size()) { f.slots.pop_front(); f.base++; }
}

static Fault *match_fault(int kind) {
    for (auto &ft : g->faults) {
        if (ft.kind != kind || ft.fired || ft.rank != cur_rank() || ft.op != cur_op()) continue;
        if (ft.nth > 0) { ft.nth--; continue; }
        ft.fired = true; g->st.fault_fired[kind]++;
        return &ft;
    }
    return nullptr;
}

// iterate over the file byte ranges addressed by [pos, pos+nbytes) of the view's data stream
template <class F> static void view_map(const View &v, long long pos, long long nbytes, F &&fn) {
    const TypeObj &ft = *v.ftype;
    if (nbytes <= 0) return;
    if (ft.size == 0) usage_error("file access through a file view whose filetype has size 0");
    long long ext = ft.ub - ft.lb;
    if (ft.segs.size() == 1 && ft.segs[0].len == ext) { fn(v.disp + ft.segs[0].off + pos, nbytes); return; }
    long long tile = pos / ft.size, within = pos % ft.size;
    // find seg containing 'within'
    size_t si = std::upper_bound(v.prefix.begin(), v.prefix.end(), within) - v.prefix.begin() - 1;
    long long so = within - v.prefix[si];
    while (nbytes > 0) {
        const Seg &sg = ft.segs[si];
        long long n = std::min(nbytes, sg.len - so);
        fn(v.disp + tile * ext + sg.off + so, n);
        nbytes -= n; so = 0;
        if (++si == ft.segs.size()) { si = 0; tile++; }
    }
}

static int do_io(MPI_File fh, bool wr, bool at, bool coll, MPI_Offset offset, void *buf, int count, MPI_Datatype dt, MPI_Status *st, int kind, const char *nm) {
    yield(nm);
    File &f = file_get(fh, nm); int me = f.rank_of(cur_rank());
    auto t = type_lookup(dt, nm, true);
    if (count < 0) usage_error(std::string(nm) + ": negative count");
    long long nbytes = (long long)count * t->size;
    g->st.fileio++;
    long s = -1; int mode = 0;
    if (coll) {
        s = fcoll_enter(f, me, kind, -1);
        // 0: eager (no synchronisation), 1: wait for everybody then transfer, 2: transfer then wait
        // Every MPI-IO implementation synchronises a collective data-transfer call at least once (offset exchange); the standard does not
        // strictly require it, but alarms that need a rank to *finish* a collective transfer before another rank has *entered* it would be
        // disputed, so the simulator never does that: all ranks enter, then each transfers at its own pace.
        mode = 1;   // (mode 2, transfer-then-leave, let a rank transfer in call k+1 before a peer had transferred in call k: no real MPI-IO does that)
        if (mode == 1) fcoll_wait(f, s, nm);
    }
    View &v = f.views[me];
    int rc = MPI_SUCCESS; long long done = 0;
    if (wr && (f.amode & MPI_MODE_RDONLY)) rc = make_errcode(MPI_ERR_READ_ONLY);
    if (!wr && (f.amode & MPI_MODE_WRONLY)) rc = make_errcode(MPI_ERR_ACCESS);
    if (at && offset < 0) rc = make_errcode(MPI_ERR_ARG);
    std::string site;
    if (rc == MPI_SUCCESS && nbytes > 0) {
        site = lib_site();
        int nth = 0;
        if (g->record_iocalls) {
            for (auto &c : g->iocalls) if (c.rank == cur_rank() && c.op == cur_op() && c.bytes > 0) nth++;
            g->iocalls.push_back(IoCall{cur_rank(), cur_op(), nth, nm, site, (long)nbytes, wr});
        }
        if (Fault *ft = match_fault(F_IO_DATA)) {
            ft->mpi_call = nm; ft->site = site; ft->bytes = (long)nbytes;
            rc = make_errcode(ft->errclass);
            ev("io-fault", ft->errclass, (long)nbytes);
        }
    }
    if (rc == MPI_SUCCESS && nbytes == 0 && coll) {   // zero-byte participation in a collective transfer: may fail as well
        site = lib_site(); int nth = 0;
        if (g->record_iocalls) { for (auto &c : g->iocalls) if (c.rank == cur_rank() && c.op == cur_op() && c.bytes == 0) nth++; g->iocalls.push_back(IoCall{cur_rank(), cur_op(), nth, nm, site, 0, wr}); }
        if (Fault *ft = match_fault(F_IO_ZERO)) { ft->mpi_call = nm; ft->site = site; ft->bytes = 0; rc = make_errcode(ft->errclass); ev("io-fault", ft->errclass, 0L); }
    }
    if (rc == MPI_SUCCESS && nbytes > 0) {
        long long esz = v.etype->size;
        long long pos = (at ? (long long)offset : v.fp) * esz;
        if (wr) {
            std::vector<uint8_t> tmp((size_t)nbytes); type_pack(buf, count, *t, tmp.data());
            // obligation: no overlapping file bytes within one write request (checked via monotone ranges)
            long long lastend = LLONG_MIN; const uint8_t *p = tmp.data(); bool bad = false;
            view_map(v, pos, nbytes, [&](long long off, long long n) {
                if (off < 0) usage_error(std::string(nm) + ": negative file offset");
                if (off < lastend) bad = true;
                lastend = off + n;
                if (getenv("VERIF_DEBUG_IO")) fprintf(stderr, "  [io] r%d %s file off=%lld len=%lld first=%d\n", cur_rank(), nm, off, n, n ? p[0] : -1);
                f.ino->write((uint64_t)off, p, (uint64_t)n); p += n;
            });
            if (bad) usage_error(std::string(nm) + ": file view addresses overlapping or decreasing file offsets within one write request");
            done = nbytes; g->st.bytes_written += nbytes;
        } else {
            std::vector<uint8_t> tmp((size_t)nbytes, 0); uint8_t *p = tmp.data(); bool eof = false;
            uint64_t fsz = f.ino->vis.size;
            view_map(v, pos, nbytes, [&](long long off, long long n) {
                if (eof) return;
                if (off < 0) usage_error(std::string(nm) + ": negative file offset");
                if ((uint64_t)off >= fsz) { eof = true; return; }
                long long m = std::min<long long>(n, (long long)(fsz - (uint64_t)off));
                f.ino->vis.read((uint64_t)off, p, (uint64_t)m); p += m; done += m;
                if (m < n) eof = true;
            });
            type_unpack(tmp.data(), done, buf, count, *t);
            g->st.bytes_read += done;
        }
        if (!at) v.fp += esz ? nbytes / esz : 0;
    }
    if (st != MPI_STATUS_IGNORE) { st->MPI_ERROR = rc; st->sim_count = rc == MPI_SUCCESS ? done : 0; st->MPI_SOURCE = 0; st->MPI_TAG = 0; }
    ev(nm, (long)offset, (long)nbytes, rc, (long)done);
    if (coll) { if (mode == 2) fcoll_wait(f, s, nm); fcoll_leave(f, s); }
    return rc;
}

} // namespace sim

using namespace sim;

extern "C" {

int MPI_File_open(MPI_Comm comm, const char *filename, int amode, MPI_Info info, MPI_File *fh) {
    yield("MPI_File_open");
    std::vector<int> members = comm_members(comm);
    int n = (int)members.size();
    // agreement among members through a barrier-like rendezvous on the communicator
    // (MPI_File_open is collective over comm): use a private Allreduce-style exchange built on MPI_Allgather semantics
    int mine[2] = {amode, 0}; std::vector<int> all(2 * n);
    if (n > 1) MPI_Allgather(mine, 2, MPI_INT, all.data(), 2, MPI_INT, comm); else { all[0] = amode; all[1] = 0; }
    for (int i = 0; i < n; i++) if (all[2 * i] != amode) { *fh = MPI_FILE_NULL; return make_errcode(MPI_ERR_NOT_SAME); }
    std::string path = strip_prefix(filename);
    int rdmodes = ((amode & MPI_MODE_RDONLY) ? 1 : 0) + ((amode & MPI_MODE_RDWR) ? 1 : 0) + ((amode & MPI_MODE_WRONLY) ? 1 : 0);
    int rc = MPI_SUCCESS;
    if (rdmodes != 1) rc = make_errcode(MPI_ERR_AMODE);
    else if ((amode & MPI_MODE_RDONLY) && (amode & (MPI_MODE_CREATE | MPI_MODE_EXCL))) rc = make_errcode(MPI_ERR_AMODE);
    // The lowest member decides the outcome and creates the shared File object; others pick it up.
    // Deterministic: keyed by (path, comm collective) through a rendezvous table.
    std::string key = path + "#";
    for (int m : members) key += std::to_string(m) + ",";
    auto it = pend.find(key);
    if (it == pend.end()) {
        Pending p{0, rc, 0};
        if (rc == MPI_SUCCESS) {
            // injected open fault on any member makes the collective open fail everywhere
            for (auto &ft : g->faults) if (ft.kind == F_OPEN && !ft.fired && ft.op == cur_op()) { bool mem = false; for (int m : members) if (m == ft.rank) mem = true; if (mem) { if (ft.nth > 0) { ft.nth--; continue; } ft.fired = true; g->st.fault_fired[F_OPEN]++; ft.mpi_call = "MPI_File_open"; ft.site = lib_site(); p.rc = make_errcode(ft.errclass); break; } }
        }
        if (p.rc == MPI_SUCCESS) {
            auto ino = g->fs.lookup(path);
            if (ino && (amode & MPI_MODE_EXCL) && (amode & MPI_MODE_CREATE)) p.rc = make_errcode(MPI_ERR_FILE_EXISTS);
            else if (!ino && !(amode & MPI_MODE_CREATE)) p.rc = make_errcode(MPI_ERR_NO_SUCH_FILE);
            else {
                if (!ino) ino = g->fs.create(path);
                auto f = std::make_shared<File>(); f->live = true; f->ino = ino; f->path = path; f->amode = amode; f->members = members;
                f->open_for.assign(n, 0); f->views.resize(n); f->seq.assign(n, 0); f->info = info_kv(info); f->in_lib = in_lib();
                for (auto &v : f->views) set_default_view(v);
                files.push_back(f); p.handle = (int)files.size() - 1; ino->open_count++;
            }
        }
        it = pend.insert({key, p}).first;
    }
    Pending &p = it->second; int h = p.handle; int r = p.rc;
    if (++p.taken == n) pend.erase(it);
    ev("MPI_File_open", amode, r);
    if (r != MPI_SUCCESS) { *fh = MPI_FILE_NULL; return r; }
    File &f = *files[h]; f.open_for[f.rank_of(cur_rank())] = 1;
    if (in_lib()) rank_res_mut(cur_rank()).files++;
    *fh = h; return MPI_SUCCESS;
}
int MPI_File_close(MPI_File *fh) {
    yield("MPI_File_close");
    if (*fh == MPI_FILE_NULL) usage_error("MPI_File_close(MPI_FILE_NULL)");
    File &f = file_get(*fh, "MPI_File_close"); int me = f.rank_of(cur_rank());
    long s = fcoll_enter(f, me, FK_CLOSE, -1);
    int rc = MPI_SUCCESS;
    if (Fault *ft = match_fault(F_CLOSE)) { ft->mpi_call = "MPI_File_close"; ft->site = lib_site(); rc = make_errcode(ft->errclass); }
    if (g->rng_mpi.chance(g->cfg.sync_fcoll)) fcoll_wait(f, s, "MPI_File_close");
    f.ino->durable = f.ino->vis;
    f.open_for[me] = 0; if (f.in_lib) rank_res_mut(cur_rank()).files--;
    bool any = false; for (char c : f.open_for) any = any || c;
    if (!any) f.ino->open_count--;
    fcoll_leave(f, s);
    ev("MPI_File_close", *fh, rc);
    *fh = MPI_FILE_NULL; return rc;
}
int MPI_File_delete(const char *filename, MPI_Info) {
    yield("MPI_File_delete");
    if (Fault *ft = match_fault(F_DELETE)) { ft->mpi_call = "MPI_File_delete"; ft->site = lib_site(); return make_errcode(ft->errclass); }
    bool ok = g->fs.unlink(strip_prefix(filename));
    ev("MPI_File_delete", ok);
    return ok ? MPI_SUCCESS : make_errcode(MPI_ERR_NO_SUCH_FILE);
}
int MPI_File_set_size(MPI_File fh, MPI_Offset size) {
    yield("MPI_File_set_size");
    File &f = file_get(fh, "MPI_File_set_size"); int me = f.rank_of(cur_rank());
    long s = fcoll_enter(f, me, FK_SET_SIZE, size);
    int rc = MPI_SUCCESS;
    if (Fault *ft = match_fault(F_SETSIZE)) { ft->mpi_call = "MPI_File_set_size"; ft->site = lib_site(); rc = make_errcode(ft->errclass); }
    fcoll_wait(f, s, "MPI_File_set_size");
    if (rc == MPI_SUCCESS) { if (f.amode & MPI_MODE_RDONLY) rc = make_errcode(MPI_ERR_READ_ONLY); else f.ino->truncate((uint64_t)size); }
    fcoll_leave(f, s); ev("MPI_File_set_size", (long)size, rc); return rc;
}
int MPI_File_get_size(MPI_File fh, MPI_Offset *size) { File &f = file_get(fh, "MPI_File_get_size"); *size = (MPI_Offset)f.ino->vis.size; return MPI_SUCCESS; }
int MPI_File_get_info(MPI_File fh, MPI_Info *info_used) {
    File &f = file_get(fh, "MPI_File_get_info");
    MPI_Info_create(info_used);
    for (auto &kv : f.info) MPI_Info_set(*info_used, kv.first.c_str(), kv.second.c_str());
    return MPI_SUCCESS;
}
int MPI_File_set_view(MPI_File fh, MPI_Offset disp, MPI_Datatype etype, MPI_Datatype filetype, const char *datarep, MPI_Info) {
    yield("MPI_File_set_view");
    File &f = file_get(fh, "MPI_File_set_view"); int me = f.rank_of(cur_rank());
    long s = fcoll_enter(f, me, FK_SET_VIEW, -1);
    int rc = MPI_SUCCESS;
    if (Fault *ft = match_fault(F_SETVIEW)) { ft->mpi_call = "MPI_File_set_view"; ft->site = lib_site(); rc = make_errcode(ft->errclass); }
    auto et = type_lookup(etype, "MPI_File_set_view(etype)", true); auto ftp = type_lookup(filetype, "MPI_File_set_view(filetype)", true);
    if (!datarep || strcmp(datarep, "native")) usage_error("MPI_File_set_view: only the native data representation is expected from PnetCDF");
    if (disp < 0) usage_error("MPI_File_set_view: negative displacement");
    if (rc == MPI_SUCCESS) {
        // caller obligations (MPI-3.1 13.3): displacements in the filetype non-negative and monotonically nondecreasing
        long long last = LLONG_MIN;
        for (auto &sg : ftp->segs) {
            if (sg.off < 0) usage_error("MPI_File_set_view: filetype has a negative displacement");
            if (sg.off < last) usage_error("MPI_File_set_view: filetype displacements are not monotonically nondecreasing (aggregated request offsets out of order)");
            last = sg.off;
        }
        if (et->size && ftp->size % et->size) usage_error("MPI_File_set_view: filetype is not a multiple of etype");
        View &v = f.views[me]; v.disp = disp; v.etype = et; v.ftype = ftp; v.fp = 0;
        v.prefix.clear(); long long acc = 0; for (auto &sg : ftp->segs) { v.prefix.push_back(acc); acc += sg.len; }
    }
    if (g->rng_mpi.chance(g->cfg.sync_fcoll)) fcoll_wait(f, s, "MPI_File_set_view");
    fcoll_leave(f, s); ev("MPI_File_set_view", (long)disp, (long)ftp->size, rc); return rc;
}
int MPI_File_sync(MPI_File fh) {
    yield("MPI_File_sync");
    File &f = file_get(fh, "MPI_File_sync"); int me = f.rank_of(cur_rank());
    long s = fcoll_enter(f, me, FK_SYNC, -1);
    int rc = MPI_SUCCESS;
    if (Fault *ft = match_fault(F_SYNC)) { ft->mpi_call = "MPI_File_sync"; ft->site = lib_site(); rc = make_errcode(ft->errclass); }
    if (g->rng_mpi.chance(g->cfg.sync_fcoll)) fcoll_wait(f, s, "MPI_File_sync");
    if (rc == MPI_SUCCESS) f.ino->durable = f.ino->vis;
    fcoll_leave(f, s); ev("MPI_File_sync", fh, rc); return rc;
}
int MPI_File_seek(MPI_File fh, MPI_Offset offset, int whence) {
    File &f = file_get(fh, "MPI_File_seek"); View &v = f.views[f.rank_of(cur_rank())];
    if (whence == MPI_SEEK_SET) v.fp = offset; else if (whence == MPI_SEEK_CUR) v.fp += offset; else usage_error("MPI_File_seek(MPI_SEEK_END) unsupported in simmpi");
    return MPI_SUCCESS;
}
int MPI_File_set_errhandler(MPI_File, MPI_Errhandler) { return MPI_SUCCESS; }
int MPI_File_read(MPI_File fh, void *buf, int count, MPI_Datatype dt, MPI_Status *st) { return do_io(fh, false, false, false, 0, buf, count, dt, st, 0, "MPI_File_read"); }
int MPI_File_read_all(MPI_File fh, void *buf, int count, MPI_Datatype dt, MPI_Status *st) { return do_io(fh, false, false, true, 0, buf, count, dt, st, FK_READ_ALL, "MPI_File_read_all"); }
int MPI_File_read_at(MPI_File fh, MPI_Offset off, void *buf, int count, MPI_Datatype dt, MPI_Status *st) { return do_io(fh, false, true, false, off, buf, count, dt, st, 0, "MPI_File_read_at"); }
int MPI_File_read_at_all(MPI_File fh, MPI_Offset off, void *buf, int count, MPI_Datatype dt, MPI_Status *st) { return do_io(fh, false, true, true, off, buf, count, dt, st, FK_READ_AT_ALL, "MPI_File_read_at_all"); }
int MPI_File_write(MPI_File fh, const void *buf, int count, MPI_Datatype dt, MPI_Status *st) { return do_io(fh, true, false, false, 0, (void *)buf, count, dt, st, 0, "MPI_File_write"); }
int MPI_File_write_all(MPI_File fh, const void *buf, int count, MPI_Datatype dt, MPI_Status *st) { return do_io(fh, true, false, true, 0, (void *)buf, count, dt, st, FK_WRITE_ALL, "MPI_File_write_all"); }
int MPI_File_write_at(MPI_File fh, MPI_Offset off, const void *buf, int count, MPI_Datatype dt, MPI_Status *st) { return do_io(fh, true, true, false, off, (void *)buf, count, dt, st, 0, "MPI_File_write_at"); }
int MPI_File_write_at_all(MPI_File fh, MPI_Offset off, const void *buf, int count, MPI_Datatype dt, MPI_Status *st) { return do_io(fh, true, true, true, off, (void *)buf, count, dt, st, FK_WRITE_AT_ALL, "MPI_File_write_at_all"); }
}
