// simmpi datatype engine: constructors, flattening, envelope/contents, pack/unpack.
#include "mpi_int.hpp"
#include <algorithm>
#include <climits>

namespace sim {

RankRes &rank_res_mut(int rank);
static std::vector<TypeSlot> slots;           // derived types, handle = 1000 + index
static std::vector<std::shared_ptr<TypeObj>> predefined;
static const int HBASE = 1000;

int basic_size(int named) {
    switch (named) {
    case MPI_CHAR: case MPI_SIGNED_CHAR: case MPI_UNSIGNED_CHAR: case MPI_BYTE: case MPI_CHARACTER: case MPI_INTEGER1:
    case MPI_INT8_T: case MPI_UINT8_T: case MPI_C_BOOL: return 1;
    case MPI_SHORT: case MPI_UNSIGNED_SHORT: case MPI_INTEGER2: case MPI_INT16_T: case MPI_UINT16_T: return 2;
    case MPI_INT: case MPI_UNSIGNED: case MPI_FLOAT: case MPI_INTEGER: case MPI_INTEGER4: case MPI_REAL: case MPI_REAL4:
    case MPI_INT32_T: case MPI_UINT32_T: case MPI_WCHAR: return 4;
    case MPI_LONG: case MPI_UNSIGNED_LONG: case MPI_LONG_LONG_INT: case MPI_UNSIGNED_LONG_LONG: case MPI_DOUBLE:
    case MPI_AINT: case MPI_OFFSET: case MPI_COUNT: case MPI_INTEGER8: case MPI_REAL8: case MPI_DOUBLE_PRECISION:
    case MPI_INT64_T: case MPI_UINT64_T: return 8;
    case MPI_LONG_DOUBLE: return 16;
    case MPI_LB: case MPI_UB: return 0;
    }
    return -1;
}
static void init_predefined() {
    predefined.assign(SIMMPI_NUM_PREDEFINED, nullptr);
    for (int h = 1; h < SIMMPI_NUM_PREDEFINED; h++) {
        int sz = basic_size(h);
        if (sz < 0) continue;
        auto t = std::make_shared<TypeObj>();
        t->combiner = MPI_COMBINER_NAMED; t->named = h; t->basic = h; t->size = sz; t->lb = 0; t->ub = sz; t->true_lb = 0; t->true_ub = sz;
        if (sz) t->segs.push_back({0, sz});
        t->committed = true;
        predefined[h] = t;
    }
}
void types_reset() { slots.clear(); if (predefined.empty()) init_predefined(); }

void usage_error(const std::string &what) { violation("mpi-usage-error", what + " @" + lib_site()); }

std::shared_ptr<TypeObj> type_lookup(MPI_Datatype h, const char *who, bool need_commit) {
    if (predefined.empty()) init_predefined();
    if (h > 0 && h < SIMMPI_NUM_PREDEFINED && predefined[h]) return predefined[h];
    int i = h - HBASE;
    if (i < 0 || i >= (int)slots.size()) usage_error(std::string(who) + ": invalid datatype handle " + std::to_string(h));
    if (!slots[i].live) usage_error(std::string(who) + ": datatype used after MPI_Type_free");
    if (need_commit && !slots[i].obj->committed) usage_error(std::string(who) + ": datatype used in communication/IO before MPI_Type_commit");
    return slots[i].obj;
}
MPI_Datatype type_register(std::shared_ptr<TypeObj> t) {
    TypeSlot s; s.obj = t; s.live = true; s.owner = cur_rank(); s.in_lib = in_lib();
    static const bool want_sites = getenv("VERIF_TYPE_SITES") != nullptr; if (want_sites) s.site = lib_site();
    slots.push_back(s);
    if (s.in_lib) rank_res_mut(s.owner).types++;
    return HBASE + (int)slots.size() - 1;
}
TypeSlot &slot_ref(int h) { return slots[h - HBASE]; }
std::string type_leaks(int rank) {
    std::string out; int n = 0;
    for (auto &s : slots) if (s.live && s.in_lib && s.owner == rank) { if (n++ < 6) out += " combiner=" + std::to_string(s.obj->combiner) + "/size=" + std::to_string(s.obj->size) + (s.site.empty() ? "" : "@" + s.site); }
    return out;
}

static inline void app(std::vector<Seg> &v, long long off, long long len) {
    if (len <= 0) return;
    if (!v.empty() && v.back().off + v.back().len == off) v.back().len += len; else v.push_back({off, len});
}
// place blocklen consecutive copies of child starting at byte displacement disp
static void place(std::vector<Seg> &out, const TypeObj &c, long long disp, long long blocklen) {
    if (blocklen <= 0 || c.size == 0) return;
    long long ext = c.ub - c.lb;
    if (c.segs.size() == 1 && c.segs[0].len == c.size && ext == c.size) { app(out, disp + c.segs[0].off, blocklen * c.size); return; }
    if (out.size() + (size_t)blocklen * c.segs.size() > 50000000ULL) usage_error("simmpi: datatype too fragmented for the simulator");
    for (long long i = 0; i < blocklen; i++) for (auto &s : c.segs) app(out, disp + i * ext + s.off, s.len);
}
struct Bounds { bool any = false; long long lb = 0, ub = 0; void add(long long l, long long u) { if (!any) { lb = l; ub = u; any = true; } else { lb = std::min(lb, l); ub = std::max(ub, u); } } };
static void bplace(Bounds &b, const TypeObj &c, long long disp, long long blocklen) {
    if (blocklen <= 0) return;
    long long ext = c.ub - c.lb;
    long long l = disp + c.lb, u = disp + c.ub + (blocklen - 1) * ext;
    if (ext < 0) std::swap(l, u);
    b.add(std::min(l, disp + c.lb), std::max(u, disp + c.ub));
}
static void finish(TypeObj &t, const Bounds &b) {
    t.lb = b.any ? b.lb : 0; t.ub = b.any ? b.ub : 0;
    t.size = 0; bool any = false;
    for (auto &s : t.segs) { t.size += s.len; if (!any) { t.true_lb = s.off; t.true_ub = s.off + s.len; any = true; } else { t.true_lb = std::min(t.true_lb, s.off); t.true_ub = std::max(t.true_ub, s.off + s.len); } }
    if (!any) { t.true_lb = 0; t.true_ub = 0; }
}
static std::shared_ptr<TypeObj> newtype(int combiner, std::initializer_list<std::shared_ptr<TypeObj>> kids) {
    auto t = std::make_shared<TypeObj>(); t->combiner = combiner;
    bool first = true;
    for (auto &k : kids) { t->types.push_back(k); if (first) { t->basic = k->basic; first = false; } else if (t->basic != k->basic) t->basic = 0; }
    return t;
}

void type_pack(const void *buf, long long count, const TypeObj &t, uint8_t *out) {
    long long ext = t.ub - t.lb;
    const char *base = (const char *)buf;
    if (t.segs.size() == 1 && t.segs[0].len == t.size && ext == t.size) { if (count * t.size) memcpy(out, base + t.segs[0].off, count * t.size); return; }
    for (long long i = 0; i < count; i++) for (auto &s : t.segs) { memcpy(out, base + i * ext + s.off, s.len); out += s.len; }
}
void type_unpack(const uint8_t *in, long long nbytes, void *buf, long long count, const TypeObj &t) {
    long long ext = t.ub - t.lb;
    char *base = (char *)buf;
    for (long long i = 0; i < count && nbytes > 0; i++)
        for (auto &s : t.segs) {
            long long n = std::min(nbytes, s.len);
            if (n <= 0) return;
            memcpy(base + i * ext + s.off, in, n); in += n; nbytes -= n;
        }
}

} // namespace sim

using namespace sim;

#define CHK_NEG(x, who) do { if ((x) < 0) return make_errcode(MPI_ERR_ARG); } while (0)

extern "C" {

int MPI_Type_contiguous(int count, MPI_Datatype old, MPI_Datatype *nt) {
    auto c = type_lookup(old, "MPI_Type_contiguous"); CHK_NEG(count, "");
    auto t = newtype(MPI_COMBINER_CONTIGUOUS, {c}); t->ints = {count};
    Bounds b; place(t->segs, *c, 0, count); bplace(b, *c, 0, count); finish(*t, b);
    *nt = type_register(t); return MPI_SUCCESS;
}
static int mk_vector(int combiner, int count, int bl, long long stride_bytes, std::shared_ptr<TypeObj> c, std::shared_ptr<TypeObj> &out) {
    auto t = newtype(combiner, {c});
    Bounds b;
    for (int i = 0; i < count; i++) { place(t->segs, *c, i * stride_bytes, bl); bplace(b, *c, i * stride_bytes, bl); }
    finish(*t, b); out = t; return 0;
}
int MPI_Type_vector(int count, int bl, int stride, MPI_Datatype old, MPI_Datatype *nt) {
    auto c = type_lookup(old, "MPI_Type_vector"); CHK_NEG(count, ""); CHK_NEG(bl, "");
    std::shared_ptr<TypeObj> t; mk_vector(MPI_COMBINER_VECTOR, count, bl, (long long)stride * (c->ub - c->lb), c, t);
    t->ints = {count, bl, stride}; *nt = type_register(t); return MPI_SUCCESS;
}
int MPI_Type_create_hvector(int count, int bl, MPI_Aint stride, MPI_Datatype old, MPI_Datatype *nt) {
    auto c = type_lookup(old, "MPI_Type_create_hvector"); CHK_NEG(count, ""); CHK_NEG(bl, "");
    std::shared_ptr<TypeObj> t; mk_vector(MPI_COMBINER_HVECTOR, count, bl, stride, c, t);
    t->ints = {count, bl}; t->aints = {stride}; *nt = type_register(t); return MPI_SUCCESS;
}
int MPI_Type_indexed(int count, const int *bls, const int *disps, MPI_Datatype old, MPI_Datatype *nt) {
    auto c = type_lookup(old, "MPI_Type_indexed"); CHK_NEG(count, "");
    auto t = newtype(MPI_COMBINER_INDEXED, {c}); t->ints.push_back(count);
    long long ext = c->ub - c->lb; Bounds b;
    for (int i = 0; i < count; i++) { CHK_NEG(bls[i], ""); t->ints.push_back(bls[i]); }
    for (int i = 0; i < count; i++) { t->ints.push_back(disps[i]); place(t->segs, *c, disps[i] * ext, bls[i]); bplace(b, *c, disps[i] * ext, bls[i]); }
    finish(*t, b); *nt = type_register(t); return MPI_SUCCESS;
}
int MPI_Type_create_hindexed(int count, const int bls[], const MPI_Aint disps[], MPI_Datatype old, MPI_Datatype *nt) {
    auto c = type_lookup(old, "MPI_Type_create_hindexed"); CHK_NEG(count, "");
    auto t = newtype(MPI_COMBINER_HINDEXED, {c}); t->ints.push_back(count); Bounds b;
    for (int i = 0; i < count; i++) { CHK_NEG(bls[i], ""); t->ints.push_back(bls[i]); t->aints.push_back(disps[i]); place(t->segs, *c, disps[i], bls[i]); bplace(b, *c, disps[i], bls[i]); }
    finish(*t, b); *nt = type_register(t); return MPI_SUCCESS;
}
int MPI_Type_create_indexed_block(int count, int bl, const int disps[], MPI_Datatype old, MPI_Datatype *nt) {
    auto c = type_lookup(old, "MPI_Type_create_indexed_block"); CHK_NEG(count, ""); CHK_NEG(bl, "");
    auto t = newtype(MPI_COMBINER_INDEXED_BLOCK, {c}); t->ints = {count, bl}; long long ext = c->ub - c->lb; Bounds b;
    for (int i = 0; i < count; i++) { t->ints.push_back(disps[i]); place(t->segs, *c, disps[i] * ext, bl); bplace(b, *c, disps[i] * ext, bl); }
    finish(*t, b); *nt = type_register(t); return MPI_SUCCESS;
}
int MPI_Type_create_hindexed_block(int count, int bl, const MPI_Aint disps[], MPI_Datatype old, MPI_Datatype *nt) {
    auto c = type_lookup(old, "MPI_Type_create_hindexed_block"); CHK_NEG(count, ""); CHK_NEG(bl, "");
    auto t = newtype(MPI_COMBINER_HINDEXED_BLOCK, {c}); t->ints = {count, bl}; Bounds b;
    for (int i = 0; i < count; i++) { t->aints.push_back(disps[i]); place(t->segs, *c, disps[i], bl); bplace(b, *c, disps[i], bl); }
    finish(*t, b); *nt = type_register(t); return MPI_SUCCESS;
}
int MPI_Type_create_struct(int count, const int bls[], const MPI_Aint disps[], const MPI_Datatype types[], MPI_Datatype *nt) {
    CHK_NEG(count, "");
    auto t = std::make_shared<TypeObj>(); t->combiner = MPI_COMBINER_STRUCT; t->ints.push_back(count); Bounds b;
    bool first = true;
    for (int i = 0; i < count; i++) {
        auto c = type_lookup(types[i], "MPI_Type_create_struct"); CHK_NEG(bls[i], "");
        t->types.push_back(c); t->ints.push_back(bls[i]); t->aints.push_back(disps[i]);
        if (first) { t->basic = c->basic; first = false; } else if (t->basic != c->basic) t->basic = 0;
        place(t->segs, *c, disps[i], bls[i]); bplace(b, *c, disps[i], bls[i]);
    }
    finish(*t, b); *nt = type_register(t); return MPI_SUCCESS;
}
int MPI_Type_create_subarray(int nd, const int sizes[], const int subs[], const int starts[], int order, MPI_Datatype old, MPI_Datatype *nt) {
    auto c = type_lookup(old, "MPI_Type_create_subarray");
    if (nd <= 0) return make_errcode(MPI_ERR_ARG);
    for (int i = 0; i < nd; i++) if (sizes[i] < 1 || subs[i] < 1 || subs[i] > sizes[i] || starts[i] < 0 || starts[i] > sizes[i] - subs[i]) return make_errcode(MPI_ERR_ARG);
    if (order != MPI_ORDER_C && order != MPI_ORDER_FORTRAN) return make_errcode(MPI_ERR_ARG);
    auto t = newtype(MPI_COMBINER_SUBARRAY, {c}); t->ints.push_back(nd);
    for (int i = 0; i < nd; i++) t->ints.push_back(sizes[i]);
    for (int i = 0; i < nd; i++) t->ints.push_back(subs[i]);
    for (int i = 0; i < nd; i++) t->ints.push_back(starts[i]);
    t->ints.push_back(order);
    // normalise to C order: dim 0 slowest
    std::vector<long long> sz(nd), sb(nd), st(nd);
    for (int i = 0; i < nd; i++) { int k = order == MPI_ORDER_C ? i : nd - 1 - i; sz[i] = sizes[k]; sb[i] = subs[k]; st[i] = starts[k]; }
    long long ext = c->ub - c->lb;
    std::vector<long long> stride(nd); stride[nd - 1] = ext; for (int i = nd - 2; i >= 0; i--) stride[i] = stride[i + 1] * sz[i + 1];
    std::vector<long long> idx(nd, 0);
    long long nrows = 1; for (int i = 0; i < nd - 1; i++) nrows *= sb[i];
    for (long long r = 0; r < nrows; r++) {
        long long off = st[nd - 1] * stride[nd - 1];
        for (int i = 0; i < nd - 1; i++) off += (st[i] + idx[i]) * stride[i];
        place(t->segs, *c, off, sb[nd - 1]);
        for (int i = nd - 2; i >= 0; i--) { if (++idx[i] < sb[i]) break; idx[i] = 0; }
    }
    Bounds b; b.add(0, stride[0] * sz[0]); finish(*t, b);
    *nt = type_register(t); return MPI_SUCCESS;
}
int MPI_Type_create_resized(MPI_Datatype old, MPI_Aint lb, MPI_Aint extent, MPI_Datatype *nt) {
    auto c = type_lookup(old, "MPI_Type_create_resized");
    auto t = newtype(MPI_COMBINER_RESIZED, {c}); t->aints = {lb, extent}; t->segs = c->segs;
    Bounds b; b.add(lb, lb + extent); finish(*t, b);
    *nt = type_register(t); return MPI_SUCCESS;
}
int MPI_Type_dup(MPI_Datatype old, MPI_Datatype *nt) {
    auto c = type_lookup(old, "MPI_Type_dup");
    auto t = newtype(MPI_COMBINER_DUP, {c}); t->segs = c->segs; t->size = c->size; t->lb = c->lb; t->ub = c->ub; t->true_lb = c->true_lb; t->true_ub = c->true_ub;
    t->committed = c->committed;
    *nt = type_register(t); return MPI_SUCCESS;
}
int MPI_Type_commit(MPI_Datatype *dt) { auto t = type_lookup(*dt, "MPI_Type_commit"); t->committed = true; return MPI_SUCCESS; }
int MPI_Type_free(MPI_Datatype *dt) {
    if (*dt == MPI_DATATYPE_NULL) usage_error("MPI_Type_free(MPI_DATATYPE_NULL)");
    if (*dt > 0 && *dt < SIMMPI_NUM_PREDEFINED) usage_error("MPI_Type_free on a predefined datatype");
    type_lookup(*dt, "MPI_Type_free");
    TypeSlot &s = sim::slot_ref(*dt);
    s.live = false; if (s.in_lib) rank_res_mut(s.owner).types--;
    *dt = MPI_DATATYPE_NULL; return MPI_SUCCESS;
}
int MPI_Type_size(MPI_Datatype dt, int *size) { auto t = type_lookup(dt, "MPI_Type_size"); *size = t->size > INT_MAX ? MPI_UNDEFINED : (int)t->size; return MPI_SUCCESS; }
int MPI_Type_size_x(MPI_Datatype dt, MPI_Count *size) { auto t = type_lookup(dt, "MPI_Type_size_x"); *size = t->size; return MPI_SUCCESS; }
int MPI_Type_get_extent(MPI_Datatype dt, MPI_Aint *lb, MPI_Aint *ext) { auto t = type_lookup(dt, "MPI_Type_get_extent"); *lb = t->lb; *ext = t->ub - t->lb; return MPI_SUCCESS; }
int MPI_Type_get_true_extent(MPI_Datatype dt, MPI_Aint *lb, MPI_Aint *ext) { auto t = type_lookup(dt, "MPI_Type_get_true_extent"); *lb = t->true_lb; *ext = t->true_ub - t->true_lb; return MPI_SUCCESS; }
int MPI_Type_get_true_extent_x(MPI_Datatype dt, MPI_Count *lb, MPI_Count *ext) { auto t = type_lookup(dt, "MPI_Type_get_true_extent_x"); *lb = t->true_lb; *ext = t->true_ub - t->true_lb; return MPI_SUCCESS; }
int MPI_Type_get_envelope(MPI_Datatype dt, int *ni, int *na, int *nd, int *comb) {
    auto t = type_lookup(dt, "MPI_Type_get_envelope");
    *ni = (int)t->ints.size(); *na = (int)t->aints.size(); *nd = (int)t->types.size(); *comb = t->combiner; return MPI_SUCCESS;
}
int MPI_Type_get_contents(MPI_Datatype dt, int mi, int ma, int md, int ints[], MPI_Aint aints[], MPI_Datatype types[]) {
    auto t = type_lookup(dt, "MPI_Type_get_contents");
    if (t->combiner == MPI_COMBINER_NAMED) usage_error("MPI_Type_get_contents on a predefined datatype");
    if (mi < (int)t->ints.size() || ma < (int)t->aints.size() || md < (int)t->types.size()) return make_errcode(MPI_ERR_ARG);
    for (size_t i = 0; i < t->ints.size(); i++) ints[i] = t->ints[i];
    for (size_t i = 0; i < t->aints.size(); i++) aints[i] = t->aints[i];
    for (size_t i = 0; i < t->types.size(); i++) {
        if (t->types[i]->combiner == MPI_COMBINER_NAMED) types[i] = t->types[i]->named;
        else types[i] = type_register(t->types[i]);   // a new handle the caller must free
    }
    return MPI_SUCCESS;
}
int MPI_Type_get_name(MPI_Datatype dt, char *name, int *len) { type_lookup(dt, "MPI_Type_get_name"); snprintf(name, MPI_MAX_OBJECT_NAME, "type%d", dt); *len = (int)strlen(name); return MPI_SUCCESS; }

int MPI_Pack(const void *in, int incount, MPI_Datatype dt, void *out, int outsize, int *pos, MPI_Comm) {
    auto t = type_lookup(dt, "MPI_Pack", true);
    long long need = (long long)incount * t->size;
    if (*pos < 0 || *pos + need > outsize) return make_errcode(MPI_ERR_TRUNCATE);
    type_pack(in, incount, *t, (uint8_t *)out + *pos); *pos += (int)need; return MPI_SUCCESS;
}
int MPI_Unpack(const void *in, int insize, int *pos, void *out, int outcount, MPI_Datatype dt, MPI_Comm) {
    auto t = type_lookup(dt, "MPI_Unpack", true);
    long long need = (long long)outcount * t->size;
    if (*pos < 0 || *pos + need > insize) return make_errcode(MPI_ERR_TRUNCATE);
    type_unpack((const uint8_t *)in + *pos, need, out, outcount, *t); *pos += (int)need; return MPI_SUCCESS;
}
int MPI_Pack_size(int incount, MPI_Datatype dt, MPI_Comm, int *size) { auto t = type_lookup(dt, "MPI_Pack_size"); *size = (int)(incount * t->size); return MPI_SUCCESS; }
int MPI_Get_address(const void *loc, MPI_Aint *a) { *a = (MPI_Aint)loc; return MPI_SUCCESS; }
}

