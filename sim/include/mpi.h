/* simmpi: a single-process simulated MPI used by the /verif deterministic
 * simulator.  Feature level: MPI 3.1 without large-count (_c) functions, i.e.
 * what Open MPI 4.1.4 offered to PnetCDF's configure in the shipped build. */
#ifndef SIMMPI_H
#define SIMMPI_H
#include <stddef.h>
#include <stdint.h>
#ifdef __cplusplus
extern "C" {
#endif

#define MPI_VERSION 3
#define MPI_SUBVERSION 1
#define SIMMPI 1

typedef int MPI_Datatype;
typedef int MPI_Comm;
typedef int MPI_Info;
typedef int MPI_File;
typedef int MPI_Op;
typedef int MPI_Request;
typedef int MPI_Errhandler;
typedef long MPI_Aint;
typedef long long MPI_Offset;
typedef long long MPI_Count;
typedef int MPI_Fint;

typedef struct MPI_Status {
    int MPI_SOURCE, MPI_TAG, MPI_ERROR;
    long long sim_count; /* bytes */
    int sim_cancelled;
} MPI_Status;

#define MPI_SUCCESS 0
/* error classes */
#define MPI_ERR_BUFFER 1
#define MPI_ERR_COUNT 2
#define MPI_ERR_TYPE 3
#define MPI_ERR_TAG 4
#define MPI_ERR_COMM 5
#define MPI_ERR_RANK 6
#define MPI_ERR_REQUEST 7
#define MPI_ERR_ROOT 8
#define MPI_ERR_GROUP 9
#define MPI_ERR_OP 10
#define MPI_ERR_TOPOLOGY 11
#define MPI_ERR_DIMS 12
#define MPI_ERR_ARG 13
#define MPI_ERR_UNKNOWN 14
#define MPI_ERR_TRUNCATE 15
#define MPI_ERR_OTHER 16
#define MPI_ERR_INTERN 17
#define MPI_ERR_IN_STATUS 18
#define MPI_ERR_PENDING 19
#define MPI_ERR_ACCESS 20
#define MPI_ERR_AMODE 21
#define MPI_ERR_ASSERT 22
#define MPI_ERR_BAD_FILE 23
#define MPI_ERR_BASE 24
#define MPI_ERR_CONVERSION 25
#define MPI_ERR_DISP 26
#define MPI_ERR_DUP_DATAREP 27
#define MPI_ERR_FILE_EXISTS 28
#define MPI_ERR_FILE_IN_USE 29
#define MPI_ERR_FILE 30
#define MPI_ERR_INFO_KEY 31
#define MPI_ERR_INFO_NOKEY 32
#define MPI_ERR_INFO_VALUE 33
#define MPI_ERR_INFO 34
#define MPI_ERR_IO 35
#define MPI_ERR_KEYVAL 36
#define MPI_ERR_LOCKTYPE 37
#define MPI_ERR_NAME 38
#define MPI_ERR_NO_MEM 39
#define MPI_ERR_NOT_SAME 40
#define MPI_ERR_NO_SPACE 41
#define MPI_ERR_NO_SUCH_FILE 42
#define MPI_ERR_PORT 43
#define MPI_ERR_QUOTA 44
#define MPI_ERR_READ_ONLY 45
#define MPI_ERR_LASTCODE 92

#define MPI_MAX_ERROR_STRING 256
#define MPI_MAX_INFO_KEY 36
#define MPI_MAX_INFO_VAL 256
#define MPI_MAX_OBJECT_NAME 64
#define MPI_MAX_PROCESSOR_NAME 256

#define MPI_UNDEFINED (-32766)
#define MPI_ANY_SOURCE (-1)
#define MPI_ANY_TAG (-1)
#define MPI_PROC_NULL (-2)
#define MPI_ROOT (-4)

#define MPI_BOTTOM ((void *)0)
#define MPI_IN_PLACE ((void *)1)
#define MPI_STATUS_IGNORE ((MPI_Status *)0)
#define MPI_STATUSES_IGNORE ((MPI_Status *)0)

#define MPI_COMM_NULL 0
#define MPI_COMM_WORLD 1
#define MPI_COMM_SELF 2
#define MPI_INFO_NULL 0
#define MPI_FILE_NULL 0
#define MPI_REQUEST_NULL 0
#define MPI_OP_NULL 0
#define MPI_ERRORS_ARE_FATAL 1
#define MPI_ERRORS_RETURN 2

#define MPI_COMM_TYPE_SHARED 1

/* reduction ops */
#define MPI_MAX 1
#define MPI_MIN 2
#define MPI_SUM 3
#define MPI_PROD 4
#define MPI_LAND 5
#define MPI_BAND 6
#define MPI_LOR 7
#define MPI_BOR 8
#define MPI_LXOR 9
#define MPI_BXOR 10

/* predefined datatypes */
#define MPI_DATATYPE_NULL 0
#define MPI_CHAR 1
#define MPI_SIGNED_CHAR 2
#define MPI_UNSIGNED_CHAR 3
#define MPI_BYTE 4
#define MPI_SHORT 5
#define MPI_UNSIGNED_SHORT 6
#define MPI_INT 7
#define MPI_UNSIGNED 8
#define MPI_LONG 9
#define MPI_UNSIGNED_LONG 10
#define MPI_LONG_LONG_INT 11
#define MPI_LONG_LONG MPI_LONG_LONG_INT
#define MPI_UNSIGNED_LONG_LONG 12
#define MPI_FLOAT 13
#define MPI_DOUBLE 14
#define MPI_LONG_DOUBLE 15
#define MPI_AINT 16
#define MPI_OFFSET 17
#define MPI_COUNT 18
#define MPI_LB 19
#define MPI_UB 20
#define MPI_CHARACTER 21
#define MPI_INTEGER 22
#define MPI_INTEGER1 23
#define MPI_INTEGER2 24
#define MPI_INTEGER4 25
#define MPI_INTEGER8 26
#define MPI_REAL 27
#define MPI_REAL4 28
#define MPI_REAL8 29
#define MPI_DOUBLE_PRECISION 30
#define MPI_INT8_T 31
#define MPI_UINT8_T 32
#define MPI_INT16_T 33
#define MPI_UINT16_T 34
#define MPI_INT32_T 35
#define MPI_UINT32_T 36
#define MPI_INT64_T 37
#define MPI_UINT64_T 38
#define MPI_C_BOOL 39
#define MPI_WCHAR 40
#define SIMMPI_NUM_PREDEFINED 41

/* combiners */
#define MPI_COMBINER_NAMED 1
#define MPI_COMBINER_DUP 2
#define MPI_COMBINER_CONTIGUOUS 3
#define MPI_COMBINER_VECTOR 4
#define MPI_COMBINER_HVECTOR_INTEGER 5
#define MPI_COMBINER_HVECTOR 6
#define MPI_COMBINER_INDEXED 7
#define MPI_COMBINER_HINDEXED_INTEGER 8
#define MPI_COMBINER_HINDEXED 9
#define MPI_COMBINER_INDEXED_BLOCK 10
#define MPI_COMBINER_STRUCT_INTEGER 11
#define MPI_COMBINER_STRUCT 12
#define MPI_COMBINER_SUBARRAY 13
#define MPI_COMBINER_DARRAY 14
#define MPI_COMBINER_F90_REAL 15
#define MPI_COMBINER_F90_COMPLEX 16
#define MPI_COMBINER_F90_INTEGER 17
#define MPI_COMBINER_RESIZED 18
#define MPI_COMBINER_HINDEXED_BLOCK 19

#define MPI_ORDER_C 56
#define MPI_ORDER_FORTRAN 57
#define MPI_DISTRIBUTE_BLOCK 121
#define MPI_DISTRIBUTE_CYCLIC 122
#define MPI_DISTRIBUTE_NONE 123
#define MPI_DISTRIBUTE_DFLT_DARG (-49767)

/* file access modes */
#define MPI_MODE_CREATE 1
#define MPI_MODE_RDONLY 2
#define MPI_MODE_WRONLY 4
#define MPI_MODE_RDWR 8
#define MPI_MODE_DELETE_ON_CLOSE 16
#define MPI_MODE_UNIQUE_OPEN 32
#define MPI_MODE_EXCL 64
#define MPI_MODE_APPEND 128
#define MPI_MODE_SEQUENTIAL 256
#define MPI_SEEK_SET 600
#define MPI_SEEK_CUR 602
#define MPI_SEEK_END 604

#define MPI_Aint_add(base, disp) ((MPI_Aint)((char *)(base) + (disp)))
#define MPI_Aint_diff(a, b) ((MPI_Aint)((char *)(a) - (char *)(b)))

int MPI_Init(int *argc, char ***argv);
int MPI_Initialized(int *flag);
int MPI_Finalize(void);
int MPI_Finalized(int *flag);
int MPI_Abort(MPI_Comm comm, int errorcode);
double MPI_Wtime(void);
int MPI_Get_processor_name(char *name, int *resultlen);
int MPI_Get_address(const void *location, MPI_Aint *address);
int MPI_Error_class(int errorcode, int *errorclass);
int MPI_Error_string(int errorcode, char *string, int *resultlen);

int MPI_Comm_rank(MPI_Comm comm, int *rank);
int MPI_Comm_size(MPI_Comm comm, int *size);
int MPI_Comm_dup(MPI_Comm comm, MPI_Comm *newcomm);
int MPI_Comm_free(MPI_Comm *comm);
int MPI_Comm_split(MPI_Comm comm, int color, int key, MPI_Comm *newcomm);
int MPI_Comm_split_type(MPI_Comm comm, int split_type, int key, MPI_Info info, MPI_Comm *newcomm);
int MPI_Comm_set_errhandler(MPI_Comm comm, MPI_Errhandler errhandler);

int MPI_Barrier(MPI_Comm comm);
int MPI_Bcast(void *buffer, int count, MPI_Datatype datatype, int root, MPI_Comm comm);
int MPI_Allreduce(const void *sendbuf, void *recvbuf, int count, MPI_Datatype datatype, MPI_Op op, MPI_Comm comm);
int MPI_Reduce(const void *sendbuf, void *recvbuf, int count, MPI_Datatype datatype, MPI_Op op, int root, MPI_Comm comm);
int MPI_Gather(const void *sendbuf, int sendcount, MPI_Datatype sendtype, void *recvbuf, int recvcount, MPI_Datatype recvtype, int root, MPI_Comm comm);
int MPI_Gatherv(const void *sendbuf, int sendcount, MPI_Datatype sendtype, void *recvbuf, const int *recvcounts, const int *displs, MPI_Datatype recvtype, int root, MPI_Comm comm);
int MPI_Allgather(const void *sendbuf, int sendcount, MPI_Datatype sendtype, void *recvbuf, int recvcount, MPI_Datatype recvtype, MPI_Comm comm);
int MPI_Alltoall(const void *sendbuf, int sendcount, MPI_Datatype sendtype, void *recvbuf, int recvcount, MPI_Datatype recvtype, MPI_Comm comm);

int MPI_Send(const void *buf, int count, MPI_Datatype datatype, int dest, int tag, MPI_Comm comm);
int MPI_Recv(void *buf, int count, MPI_Datatype datatype, int source, int tag, MPI_Comm comm, MPI_Status *status);
int MPI_Isend(const void *buf, int count, MPI_Datatype datatype, int dest, int tag, MPI_Comm comm, MPI_Request *request);
int MPI_Irecv(void *buf, int count, MPI_Datatype datatype, int source, int tag, MPI_Comm comm, MPI_Request *request);
int MPI_Wait(MPI_Request *request, MPI_Status *status);
int MPI_Waitall(int count, MPI_Request array_of_requests[], MPI_Status array_of_statuses[]);
int MPI_Get_count(const MPI_Status *status, MPI_Datatype datatype, int *count);
int MPI_Get_elements_x(const MPI_Status *status, MPI_Datatype datatype, MPI_Count *count);
int MPI_Buffer_detach(void *buffer_addr, int *size);

int MPI_Type_contiguous(int count, MPI_Datatype oldtype, MPI_Datatype *newtype);
int MPI_Type_vector(int count, int blocklength, int stride, MPI_Datatype oldtype, MPI_Datatype *newtype);
int MPI_Type_create_hvector(int count, int blocklength, MPI_Aint stride, MPI_Datatype oldtype, MPI_Datatype *newtype);
int MPI_Type_indexed(int count, const int *array_of_blocklengths, const int *array_of_displacements, MPI_Datatype oldtype, MPI_Datatype *newtype);
int MPI_Type_create_hindexed(int count, const int array_of_blocklengths[], const MPI_Aint array_of_displacements[], MPI_Datatype oldtype, MPI_Datatype *newtype);
int MPI_Type_create_indexed_block(int count, int blocklength, const int array_of_displacements[], MPI_Datatype oldtype, MPI_Datatype *newtype);
int MPI_Type_create_hindexed_block(int count, int blocklength, const MPI_Aint array_of_displacements[], MPI_Datatype oldtype, MPI_Datatype *newtype);
int MPI_Type_create_struct(int count, const int array_of_blocklengths[], const MPI_Aint array_of_displacements[], const MPI_Datatype array_of_types[], MPI_Datatype *newtype);
int MPI_Type_create_subarray(int ndims, const int array_of_sizes[], const int array_of_subsizes[], const int array_of_starts[], int order, MPI_Datatype oldtype, MPI_Datatype *newtype);
int MPI_Type_create_resized(MPI_Datatype oldtype, MPI_Aint lb, MPI_Aint extent, MPI_Datatype *newtype);
int MPI_Type_dup(MPI_Datatype oldtype, MPI_Datatype *newtype);
int MPI_Type_commit(MPI_Datatype *datatype);
int MPI_Type_free(MPI_Datatype *datatype);
int MPI_Type_size(MPI_Datatype datatype, int *size);
int MPI_Type_size_x(MPI_Datatype datatype, MPI_Count *size);
int MPI_Type_get_extent(MPI_Datatype datatype, MPI_Aint *lb, MPI_Aint *extent);
int MPI_Type_get_true_extent(MPI_Datatype datatype, MPI_Aint *true_lb, MPI_Aint *true_extent);
int MPI_Type_get_true_extent_x(MPI_Datatype datatype, MPI_Count *true_lb, MPI_Count *true_extent);
int MPI_Type_get_envelope(MPI_Datatype datatype, int *num_integers, int *num_addresses, int *num_datatypes, int *combiner);
int MPI_Type_get_contents(MPI_Datatype datatype, int max_integers, int max_addresses, int max_datatypes, int array_of_integers[], MPI_Aint array_of_addresses[], MPI_Datatype array_of_datatypes[]);
int MPI_Type_get_name(MPI_Datatype datatype, char *type_name, int *resultlen);
int MPI_Pack(const void *inbuf, int incount, MPI_Datatype datatype, void *outbuf, int outsize, int *position, MPI_Comm comm);
int MPI_Unpack(const void *inbuf, int insize, int *position, void *outbuf, int outcount, MPI_Datatype datatype, MPI_Comm comm);
int MPI_Pack_size(int incount, MPI_Datatype datatype, MPI_Comm comm, int *size);

int MPI_Info_create(MPI_Info *info);
int MPI_Info_dup(MPI_Info info, MPI_Info *newinfo);
int MPI_Info_free(MPI_Info *info);
int MPI_Info_set(MPI_Info info, const char *key, const char *value);
int MPI_Info_get(MPI_Info info, const char *key, int valuelen, char *value, int *flag);
int MPI_Info_get_nkeys(MPI_Info info, int *nkeys);
int MPI_Info_get_nthkey(MPI_Info info, int n, char *key);
int MPI_Info_get_valuelen(MPI_Info info, const char *key, int *valuelen, int *flag);
int MPI_Info_delete(MPI_Info info, const char *key);

int MPI_File_open(MPI_Comm comm, const char *filename, int amode, MPI_Info info, MPI_File *fh);
int MPI_File_close(MPI_File *fh);
int MPI_File_delete(const char *filename, MPI_Info info);
int MPI_File_set_size(MPI_File fh, MPI_Offset size);
int MPI_File_get_size(MPI_File fh, MPI_Offset *size);
int MPI_File_get_info(MPI_File fh, MPI_Info *info_used);
int MPI_File_set_view(MPI_File fh, MPI_Offset disp, MPI_Datatype etype, MPI_Datatype filetype, const char *datarep, MPI_Info info);
int MPI_File_sync(MPI_File fh);
int MPI_File_seek(MPI_File fh, MPI_Offset offset, int whence);
int MPI_File_set_errhandler(MPI_File file, MPI_Errhandler errhandler);
int MPI_File_read(MPI_File fh, void *buf, int count, MPI_Datatype datatype, MPI_Status *status);
int MPI_File_read_all(MPI_File fh, void *buf, int count, MPI_Datatype datatype, MPI_Status *status);
int MPI_File_read_at(MPI_File fh, MPI_Offset offset, void *buf, int count, MPI_Datatype datatype, MPI_Status *status);
int MPI_File_read_at_all(MPI_File fh, MPI_Offset offset, void *buf, int count, MPI_Datatype datatype, MPI_Status *status);
int MPI_File_write(MPI_File fh, const void *buf, int count, MPI_Datatype datatype, MPI_Status *status);
int MPI_File_write_all(MPI_File fh, const void *buf, int count, MPI_Datatype datatype, MPI_Status *status);
int MPI_File_write_at(MPI_File fh, MPI_Offset offset, const void *buf, int count, MPI_Datatype datatype, MPI_Status *status);
int MPI_File_write_at_all(MPI_File fh, MPI_Offset offset, const void *buf, int count, MPI_Datatype datatype, MPI_Status *status);

#ifdef __cplusplus
}
#endif
#endif
