// Deterministic simulator core: fibers, seeded scheduler, event log, fault plan,
// SimFS, and the bookkeeping side of simmpi.  See DESIGN.md section 3.
#pragma once
#include <cstdint>
#include <cstring>
#include <functional>
#include <map>
#include <memory>
#include <string>
#include <vector>

namespace sim {

// ---------------------------------------------------------------- PRNG
struct Rng {
    uint64_t s[4];
    explicit Rng(uint64_t seed = 0) { reseed(seed); }
    static uint64_t splitmix(uint64_t &x) {
        uint64_t z = (x += 0x9e3779b97f4a7c15ULL);
        z = (z ^ (z >> 30)) * 0xbf58476d1ce4e5b9ULL;
        z = (z ^ (z >> 27)) * 0x94d049bb133111ebULL;
        return z ^ (z >> 31);
    }
    void reseed(uint64_t seed) { for (auto &v : s) v = splitmix(seed); }
    static uint64_t rotl(uint64_t x, int k) { return (x << k) | (x >> (64 - k)); }
    uint64_t next() {
        uint64_t r = rotl(s[1] * 5, 7) * 9, t = s[1] << 17;
        s[2] ^= s[0]; s[3] ^= s[1]; s[1] ^= s[2]; s[0] ^= s[3]; s[2] ^= t; s[3] = rotl(s[3], 45);
        return r;
    }
    // uniform in [0,n)
    uint64_t below(uint64_t n) { return n ? next() % n : 0; }
    long range(long lo, long hi) { return lo + (long)below((uint64_t)(hi - lo + 1)); } // inclusive
    bool chance(double p) { return (next() >> 11) * (1.0 / 9007199254740992.0) < p; }
    template <class T> const T &pick(const std::vector<T> &v) { return v[below(v.size())]; }
};

// ---------------------------------------------------------------- SimFS
struct Page { uint8_t b[4096]; };
struct Image {                       // immutable snapshot of a file's bytes
    std::map<uint64_t, std::shared_ptr<Page>> pages;
    uint64_t size = 0;
    bool exists = false;
    uint8_t at(uint64_t off) const;
    void read(uint64_t off, void *buf, uint64_t len) const; // zero fill beyond / holes
    std::vector<uint8_t> bytes(uint64_t off, uint64_t len) const;
};
// byte ranges [lo,hi) where two images differ (size differences count as differing)
std::vector<std::pair<uint64_t, uint64_t>> image_diff(const Image &a, const Image &b);

struct Inode {
    Image vis;        // visible image
    Image durable;    // image as of the last sync/close
    uint64_t id = 0;
    int open_count = 0;
    void write(uint64_t off, const void *buf, uint64_t len);
    void truncate(uint64_t size);
};
struct FS {
    std::map<std::string, std::shared_ptr<Inode>> files;
    std::map<std::string, std::string> symlinks;
    uint64_t next_id = 1;
    std::shared_ptr<Inode> lookup(const std::string &path, bool follow = true);
    std::shared_ptr<Inode> create(const std::string &path);
    bool unlink(const std::string &path);
    void put_file(const std::string &path, const std::vector<uint8_t> &bytes);
    void clear() { files.clear(); symlinks.clear(); next_id = 1; }
};
std::string strip_prefix(const char *path); // removes "ufs:" style prefixes

// ---------------------------------------------------------------- faults
enum FaultKind {
    F_IO_DATA = 0,   // nth data-transfer MPI-IO call (>=1 byte) during op on rank fails with errclass
    F_OPEN, F_CLOSE, F_SYNC, F_SETSIZE, F_DELETE, F_SETVIEW,
    F_POSIX_SHORT,   // nth wrapped POSIX read/write is short (arg = divisor) or EINTR (arg=0)
    F_IO_ZERO,       // nth ZERO-byte collective data-transfer MPI-IO call during op on rank fails with errclass (a rank that only participates)
    F_KIND_COUNT
};
extern const char *fault_kind_name[];
struct Fault {
    int kind = F_IO_DATA, rank = 0, op = 0, nth = 0, errclass = 0, arg = 0;
    bool fired = false;
    // filled when fired:
    std::string mpi_call, site;
    long bytes = 0;
};

// one data-transfer call observed (for C11 enumeration)
struct IoCall { int rank, op, nth; std::string mpi_call, site; long bytes; bool write; };

// ---------------------------------------------------------------- run config (simulator side)
struct SimConfig {
    int nprocs = 1;
    std::vector<int> node_of;            // rank -> node id
    double deviate = 0.0;                // probability a scheduling decision deviates from default
    double eager_coll = 0.5;             // probability a rooted collective completes eagerly for early leavers
    double eager_send = 0.5;             // probability MPI_Send is eager
    double sync_fcoll = 0.5;             // probability a file collective synchronises
    std::map<std::string, std::string> env; // environment seen by the library
    std::map<std::string, long> knobs;      // pnc_verif_knob values
    long max_steps = 1000000;
    // explicit schedule (replay): decision index -> rank; when replaying, deviations come from here
    bool explicit_schedule = false;
    std::vector<std::pair<long, int>> deviations;
    // explicit mpi-behaviour coin flips are derived from mpi stream seeded by seed (replayed identically)
    int starve_rank = -1; long starve_from = 0, starve_len = 0;
};

struct ViolationInfo {
    std::string kind;   // hang, collective-mismatch, mpi-usage-error, crash, oracle:<name>, ...
    std::string detail;
    int rank = -1, op = -1;
};

struct RunStats {
    long steps = 0, switches = 0, events = 0, coll = 0, p2p = 0, fileio = 0, fcoll = 0, posix = 0;
    long bytes_written = 0, bytes_read = 0;
    long fault_fired[F_KIND_COUNT] = {0};
    uint64_t ilv_hash = 0;   // interleaving hash: (rank, call kind) at each decision
    uint64_t ev_hash = 0;    // full event hash
    long peak_alloc = 0, max_single_alloc = 0;
};

// ---------------------------------------------------------------- simulation control
using RankMain = std::function<void(int rank)>;

struct Sim {
    SimConfig cfg;
    uint64_t seed = 0;
    Rng rng_sched, rng_fault, rng_mpi;
    FS fs;
    std::vector<Fault> faults;
    std::vector<IoCall> iocalls; bool record_iocalls = false;
    std::vector<ViolationInfo> violations;   // first one aborts the run
    RunStats st;
    std::vector<std::pair<long, int>> taken_deviations; // recorded schedule
    bool trace = false; std::string trace_text;
    std::map<std::string, long> probes;
};
extern Sim *g;               // current simulation (one per process at a time)

void run(Sim &s, const RankMain &fn);     // runs all ranks to completion / violation
int cur_rank();                            // -1 when outside a rank fiber
void yield(const char *what);              // scheduling point
void block_until(const char *what, const std::function<bool()> &pred); // yields until pred() true
[[noreturn]] void violation(const std::string &kind, const std::string &detail);
void soft_violation(const std::string &kind, const std::string &detail); // record, keep going
void ev(const char *kind, long a = 0, long b = 0, long c = 0, long d = 0);  // event log + hash
void probe(const char *name, long n = 1);
void set_cur_op(int op);   // harness: op index being executed on this rank
int  cur_op();
void set_in_lib(bool v);   // harness: true while inside an ncmpi_* call (for allocation accounting)
bool in_lib();
void set_rank_desc(const std::string &d); // what the rank is doing (hang reports)

// per-rank allocation/resource accounting
struct RankRes {
    long live_blocks = 0, live_bytes = 0;
    long types = 0, comms = 0, infos = 0, files = 0, reqs = 0, fds = 0;
};
RankRes rank_resources(int rank);   // live objects created inside library calls by rank
std::string rank_resources_detail(int rank);

// symbolisation of library call sites
std::string symbolize(void *addr);
std::string lib_site(int skip = 0);  // nearest non-simulator frames, "fnA<fnB<fnC"

// simmpi internals exposed to harness
void mpi_reset(int nprocs);
std::string mpi_leak_report(int rank);
void mpi_set_file_fault_hook();
const char *errclass_name(int cls);

// library globals save/restore (per-rank isolation)
void globals_init();
void end_run_cleanup();  // free what the library still holds; restore pristine globals   // capture pristine image (call once at process start, before any library use)

} // namespace sim

extern "C" long pnc_verif_knob(const char *name, long dflt);
