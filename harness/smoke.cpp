// Bring-up smoke test: N ranks create a file, define, write collectively, read back, close.
#include "sim.hpp"
#include <mpi.h>
#include <pnetcdf.h>
#include <cstdio>
#include <vector>

namespace sim { void end_run_cleanup(); }

static int fails;
#define CK(e) do { int _r = (e); if (_r != NC_NOERR) { fprintf(stderr, "rank %d: %s -> %s\n", sim::cur_rank(), #e, ncmpi_strerror(_r)); fails++; } } while (0)

int smoke_main(int nprocs, uint64_t seed, bool verbose) {
    sim::Sim s; s.seed = seed; s.cfg.nprocs = nprocs; s.cfg.deviate = 0.3; s.trace = verbose;
    fails = 0;
    sim::run(s, [&](int rank) {
        int ncid, dimid[2], varid, rvar;
        sim::set_in_lib(true);
        CK(ncmpi_create(MPI_COMM_WORLD, "/sim/test.nc", NC_CLOBBER | NC_64BIT_DATA, MPI_INFO_NULL, &ncid));
        CK(ncmpi_def_dim(ncid, "y", 4 * nprocs, &dimid[0]));
        CK(ncmpi_def_dim(ncid, "x", 5, &dimid[1]));
        CK(ncmpi_def_var(ncid, "v", NC_INT, 2, dimid, &varid));
        int rd[2]; CK(ncmpi_def_dim(ncid, "t", NC_UNLIMITED, &rd[0])); rd[1] = dimid[1];
        CK(ncmpi_def_var(ncid, "r", NC_DOUBLE, 2, rd, &rvar));
        CK(ncmpi_put_att_text(ncid, NC_GLOBAL, "title", 5, "hello"));
        CK(ncmpi_enddef(ncid));
        MPI_Offset st[2] = {4 * rank, 0}, ct[2] = {4, 5};
        std::vector<int> buf(20); for (int i = 0; i < 20; i++) buf[i] = rank * 100 + i;
        CK(ncmpi_put_vara_int_all(ncid, varid, st, ct, buf.data()));
        MPI_Offset rs[2] = {rank, 0}, rc[2] = {1, 5}; double db[5]; for (int i = 0; i < 5; i++) db[i] = rank + i * 0.5;
        CK(ncmpi_put_vara_double_all(ncid, rvar, rs, rc, db));
        CK(ncmpi_sync(ncid)); MPI_Barrier(MPI_COMM_WORLD); CK(ncmpi_sync(ncid));
        int peer = (rank + 1) % nprocs; st[0] = 4 * peer;
        std::vector<int> in(20, -1);
        CK(ncmpi_get_vara_int_all(ncid, varid, st, ct, in.data()));
        for (int i = 0; i < 20; i++) if (in[i] != peer * 100 + i) { fprintf(stderr, "rank %d: mismatch at %d: %d\n", rank, i, in[i]); fails++; break; }
        MPI_Offset nrec; CK(ncmpi_inq_dimlen(ncid, rd[0], &nrec));
        if (nrec != nprocs) { fprintf(stderr, "rank %d: numrecs %lld\n", rank, (long long)nrec); fails++; }
        { MPI_Offset s2[2]={0,2},c2[2]={2,1},st2[2]={1,1},im[2]={1,2}; double o[8]; for (int i=0;i<8;i++) o[i]=-1;
          CK(ncmpi_get_varm_double_all(ncid,rvar,s2,c2,st2,im,o)); if (rank==0 && getenv("VARM_DEBUG")) printf("varm got %g %g %g %g\n",o[0],o[1],o[2],o[3]); }
        CK(ncmpi_close(ncid));
        sim::set_in_lib(false);
    });
    for (auto &v : s.violations) { fprintf(stderr, "VIOLATION %s: %s\n", v.kind.c_str(), v.detail.c_str()); fails++; }
    auto ino = s.fs.lookup("/sim/test.nc");
    for (int r = 0; r < nprocs; r++) {
        auto res = sim::rank_resources(r);
        if (res.live_blocks || res.types || res.comms || res.infos || res.files || res.reqs || res.fds) {
            fprintf(stderr, "rank %d leaks: blocks=%ld types=%ld comms=%ld infos=%ld files=%ld reqs=%ld fds=%ld %s\n", r, res.live_blocks, res.types, res.comms,
                    res.infos, res.files, res.reqs, res.fds, sim::rank_resources_detail(r).c_str());
            fails++;
        }
    }
    if (verbose) fputs(s.trace_text.c_str(), stdout);
    printf("smoke nprocs=%d seed=%llu: steps=%ld events=%ld coll=%ld fileio=%ld size=%llu evhash=%016llx fails=%d\n", nprocs, (unsigned long long)seed,
           s.st.steps, s.st.events, s.st.coll, s.st.fileio, ino ? (unsigned long long)ino->vis.size : 0ULL, (unsigned long long)s.st.ev_hash, fails);
    sim::end_run_cleanup();
    return fails;
}
