#include "model.hpp"
#include <algorithm>
#include <climits>
#include <cmath>

const char *op_kind_name[] = {"create", "open", "close", "abort", "redef", "enddef", "_enddef", "begin_indep", "end_indep", "sync", "sync_numrecs", "flush",
                              "syncpoint", "barrier", "checkpoint", "def_dim", "def_var", "def_var_fill", "set_fill", "fill_var_rec", "put_att", "del_att",
                              "rename_att", "copy_att", "rename_dim", "rename_var", "put", "get", "iput", "iget", "bput", "wait", "cancel", "attach", "detach",
                              "inq", "badid", "delete", "set_default_format", "probe", "openprobe", "bigcase", "manyfiles"};

int nc_type_size(int t) {
    switch (t) { case NC_BYTE: case NC_CHAR: case NC_UBYTE: return 1; case NC_SHORT: case NC_USHORT: return 2; case NC_INT: case NC_FLOAT: case NC_UINT: return 4;
                 case NC_DOUBLE: case NC_INT64: case NC_UINT64: return 8; }
    return 0;
}
const char *nc_type_name(int t) {
    switch (t) { case NC_BYTE: return "byte"; case NC_CHAR: return "char"; case NC_SHORT: return "short"; case NC_INT: return "int"; case NC_FLOAT: return "float";
                 case NC_DOUBLE: return "double"; case NC_UBYTE: return "ubyte"; case NC_USHORT: return "ushort"; case NC_UINT: return "uint"; case NC_INT64: return "int64";
                 case NC_UINT64: return "uint64"; }
    return "?";
}
int native_memtype(int t) {
    switch (t) { case NC_BYTE: return MT_SCHAR; case NC_CHAR: return MT_TEXT; case NC_SHORT: return MT_SHORT; case NC_INT: return MT_INT; case NC_FLOAT: return MT_FLOAT;
                 case NC_DOUBLE: return MT_DOUBLE; case NC_UBYTE: return MT_UCHAR; case NC_USHORT: return MT_USHORT; case NC_UINT: return MT_UINT;
                 case NC_INT64: return MT_LONGLONG; case NC_UINT64: return MT_ULONGLONG; }
    return MT_INT;
}
long long type_maxval(int t) {
    switch (t) { case NC_BYTE: return 127; case NC_CHAR: return 126; case NC_UBYTE: return 127; case NC_SHORT: return 32767; case NC_USHORT: return 32767;
                 case NC_FLOAT: return 1 << 24; default: return 1000000000LL; }
}
long long mem_maxval(int mt) {
    switch (mt) { case MT_TEXT: return 126; case MT_SCHAR: case MT_UCHAR: return 127; case MT_SHORT: case MT_USHORT: return 32767; case MT_FLOAT: return 1 << 24;
                  default: return 1000000000LL; }
}
bool type_ok_for_format(int t, int format) { if (t < NC_BYTE || t > NC_UINT64) return false; if (format < 5 && t > NC_DOUBLE) return false; return true; }
long long default_fill_as_int(int t, bool &is_float, double &fval) {
    is_float = false; fval = 0;
    switch (t) {
    case NC_BYTE: return -127; case NC_CHAR: return 0; case NC_SHORT: return -32767; case NC_INT: return -2147483647LL;
    case NC_FLOAT: is_float = true; fval = 9.9692099683868690e+36f; return 0; case NC_DOUBLE: is_float = true; fval = 9.9692099683868690e+36; return 0;
    case NC_UBYTE: return 255; case NC_USHORT: return 65535; case NC_UINT: return 4294967295LL; case NC_INT64: return -9223372036854775806LL;
    case NC_UINT64: return (long long)18446744073709551614ULL;
    }
    return 0;
}
long long value_for(int opidx, int rank, long long k, long long maxv) {
    uint64_t h = (uint64_t)opidx * 0x9e3779b97f4a7c15ULL + (uint64_t)(rank + 1) * 0xbf58476d1ce4e5b9ULL + (uint64_t)k * 0x94d049bb133111ebULL;
    h ^= h >> 29; h *= 0xff51afd7ed558ccdULL; h ^= h >> 32;
    if (maxv < 1) maxv = 1;
    return 1 + (long long)(h % (uint64_t)maxv);
}

long long acc_nelems(const Access &a) {
    if (a.form == F_VARN) { long long t = 0; for (auto &c : a.ncount) { long long n = 1; for (auto x : c) n *= x; t += n; } return t; }
    long long n = 1; for (auto x : a.count) n *= x; return n;
}
static void sel_elems(const MVar &v, const std::vector<long long> &start, const std::vector<long long> &count, const std::vector<long long> &stride, std::vector<long long> &out) {
    size_t nd = v.dimids.size();
    if (nd == 0) { out.push_back(0); return; }
    long long n = 1; for (size_t d = 0; d < nd; d++) n *= count[d];
    if (n <= 0) return;
    // dimension multipliers (record-major: record index multiplies recelems)
    std::vector<long long> mul(nd); long long m = 1;
    for (int d = (int)nd - 1; d >= 0; d--) { mul[d] = m; if (!(v.isrec && d == 0)) m *= v.shape[d]; }
    if (v.isrec) mul[0] = v.recelems;
    std::vector<long long> idx(nd, 0);
    for (long long k = 0; k < n; k++) {
        long long lin = 0;
        for (size_t d = 0; d < nd; d++) lin += (start[d] + idx[d] * (stride.empty() ? 1 : stride[d])) * mul[d];
        out.push_back(lin);
        for (int d = (int)nd - 1; d >= 0; d--) { if (++idx[d] < count[d]) break; idx[d] = 0; }
    }
}
void acc_elems(const MVar &v, const Access &a, std::vector<long long> &out) {
    out.clear();
    if (a.form == F_VARN) { for (size_t i = 0; i < a.nstart.size(); i++) sel_elems(v, a.nstart[i], a.ncount[i], {}, out); return; }
    sel_elems(v, a.start, a.count, (a.form == F_VARS || a.form == F_VARM || a.form == F_VARD) ? a.stride : std::vector<long long>(), out);
}
void ensure_records(MVar &v, long long nrec) {
    if (!v.isrec) return;
    if (nrec > v.nrec_alloc) { v.cells.resize((size_t)(nrec * v.recelems)); v.nrec_alloc = nrec; }
}

// ---------------------------------------------------------------- validity predicate (documented precedence)
static int check_dims(const MVar &v, long long numrecs, bool is_read, bool strict, const std::vector<long long> &start, const std::vector<long long> &count,
                      const std::vector<long long> *stride, int format) {
    size_t nd = v.dimids.size();
    if (nd == 0) return NC_NOERR;
    if (start.size() < nd) return NC_EINVALCOORDS;
    if (start[0] < 0) return NC_EINVALCOORDS;
    bool hascount = count.size() >= nd;
    auto einval = [&](long long st, long long cnt, long long shape) {
        if (strict) { if (st < 0 || st >= shape) return true; }
        else { if (st < 0 || st > shape) return true; if (st == shape && cnt > 0) return true; }
        return false;
    };
    size_t first = 0;
    if (v.isrec) {
        if (format < 5 && start[0] > 4294967295LL) return NC_EINVALCOORDS;
        if (is_read) {
            long long len = hascount ? count[0] : 1;
            if (numrecs == 0 && len > 0) return NC_EINVALCOORDS;
            if (einval(start[0], len, numrecs)) return NC_EINVALCOORDS;
        }
        first = 1;
    }
    for (size_t i = first; i < nd; i++) if (einval(start[i], hascount ? count[i] : 1, v.shape[i])) return NC_EINVALCOORDS;
    if (!hascount) return NC_NOERR;   // var1
    auto eedge = [&](size_t i, long long shape) {
        if (count[i] > shape || start[i] + count[i] > shape) return true;
        if (stride && count[i] > 0 && start[i] + (count[i] - 1) * (*stride)[i] >= shape) return true;
        return false;
    };
    first = 0;
    if (v.isrec) {
        if (count[0] < 0) return NC_ENEGATIVECNT;
        if (is_read && eedge(0, numrecs)) return NC_EEDGE;
        first = 1;
    }
    for (size_t i = first; i < nd; i++) {
        if (count[i] < 0) return NC_ENEGATIVECNT;
        if (eedge(i, v.shape[i])) return NC_EEDGE;
    }
    if (stride) for (size_t i = 0; i < nd; i++) if ((*stride)[i] <= 0) return NC_ESTRIDE;
    return NC_NOERR;
}

int predict_access_rc(const MFile &f, int rank, int varid, const Access &a, bool is_read, int kind, bool coll, bool strict, bool &fatal) {
    fatal = false;
    bool blocking = (kind == K_PUT || kind == K_GET);
    if (!is_read && f.readonly) { fatal = true; return NC_EPERM; }
    if (blocking) {
        if (f.mode == FM_DEFINE) { fatal = true; return NC_EINDEFINE; }
        if (coll && f.mode == FM_INDEP) { fatal = true; return NC_EINDEP; }
        if (!coll && f.mode != FM_INDEP) { fatal = true; return NC_ENOTINDEP; }
    }
    if (varid == -1) return NC_EGLOBAL;
    if (a.invalid == INV_BAD_VARID) return NC_ENOTVAR;
    if (varid < 0 || varid >= (int)f.vars.size()) return NC_ENOTVAR;
    const MVar &v = f.vars[varid];
    if (!a.flexible) { if ((a.memtype == MT_TEXT) != (v.type == NC_CHAR)) return NC_ECHAR; }
    long long numrecs = f.ranks.empty() ? f.numrecs : f.ranks[rank].numrecs;
    if (a.form == F_VAR || a.form == F_VARD) { /* whole variable: no index arguments to check */ }
    else if (a.form == F_VARN) {
        for (size_t i = 0; i < a.nstart.size(); i++) {
            int rc = check_dims(v, numrecs, is_read, strict, a.nstart[i], a.ncount[i], nullptr, f.format);
            if (rc != NC_NOERR) return rc;
        }
    } else {
        std::vector<long long> nocount;
        const std::vector<long long> *st = (a.form == F_VARS || a.form == F_VARM) && !a.stride.empty() ? &a.stride : nullptr;
        int rc = check_dims(v, numrecs, is_read, strict, a.start, a.form == F_VAR1 ? nocount : a.count, st, f.format);
        if (rc != NC_NOERR) return rc;
    }
    if (a.flexible && ((a.memtype == MT_TEXT) != (v.type == NC_CHAR))) return NC_ECHAR;
    return NC_NOERR;
}

// ---------------------------------------------------------------- annotator
static void sync_numrecs(MFile &f) {
    if (f.bb) { bool pend = false; for (auto &r : f.ranks) pend = pend || r.bb_pending;
        if (pend) { long long lo = 0; for (auto &r : f.ranks) lo = std::max(lo, r.numrecs); for (auto &r : f.ranks) { r.numrecs = lo; r.numrecs_dirty = true; } return; } }   // records still sitting in a log are not part of the agreed count yet
    for (auto &r : f.ranks) { r.numrecs = f.numrecs; r.numrecs_dirty = false; }
}
// burst-buffer fragment: rank's log is flushed (wait / flush / sync / redef / close / a read by that rank)
static void bb_flush(MFile &f, int rank) { if (!f.bb) return; uint8_t me = (uint8_t)(1u << rank); for (auto &v : f.vars) for (auto &c : v.cells) c.bb &= (uint8_t)~me; if (rank < (int)f.ranks.size()) { f.ranks[rank].bb_pending = false; for (auto &q : f.ranks[rank].reqs) if (q.live) q.bb_flushed = true; } }
static void bb_flush_all(MFile &f) { if (!f.bb) return; for (auto &v : f.vars) for (auto &c : v.cells) c.bb = c.bbx = 0; for (auto &r : f.ranks) { r.bb_pending = false; for (auto &q : r.reqs) if (q.live) q.bb_flushed = true; } }
static void bb_ordered(Model &m) { for (auto &f : m.files) if (f.bb) for (auto &v : f.vars) for (auto &c : v.cells) c.bbx = c.bb; }   // every rank passed a barrier: flushes made before it precede everything after it
// a write is inside the documented fragment only if no log may still hold another write to the element and no pending nonblocking put covers it
// 'post': a nonblocking put may reach the file at any flush between its post and its wait, so it must already be ordered (documented synchronisation)
// after every other rank's earlier write to the element when it is posted
static bool bb_conflict(const MFile &f, const MVar &v, const std::vector<long long> &elems, int rank, bool post = false) { if (!f.bb) return false; uint8_t me = (uint8_t)(1u << rank); for (auto e : elems) if (e >= 0 && e < (long long)v.cells.size()) { const Cell &c = v.cells[(size_t)e]; if (c.bb || c.bbpend || (c.bbx & ~me) || (post && (c.wmask & ~me))) return true; } return false; }
static void mark_synced(MFile &f) { for (auto &v : f.vars) for (auto &c : v.cells) c.wmask = 0; }
static MAtt *find_att(std::vector<MAtt> &l, const std::string &n) { for (auto &a : l) if (a.name == n) return &a; return nullptr; }
static int resolve_var(const MFile &f, int var) { if (f.vars.empty()) return -2; return ((var % (int)f.vars.size()) + (int)f.vars.size()) % (int)f.vars.size(); }
static bool any_pending(const MFile &f) { for (auto &r : f.ranks) for (auto &q : r.reqs) if (q.live) return true; return false; }

static std::shared_ptr<MFile> schema_copy(const MFile &f) {
    auto s = std::make_shared<MFile>(); s->open = f.open; s->path = f.path; s->format = f.format; s->mode = f.mode; s->readonly = f.readonly; s->fresh = f.fresh; s->bb = f.bb;
    s->dims = f.dims; s->gatts = f.gatts; s->numrecs = f.numrecs; s->fill = f.fill; s->ranks = f.ranks; for (auto &r : s->ranks) r.reqs.clear();
    for (auto &v : f.vars) { MVar c; c.name = v.name; c.type = v.type; c.dimids = v.dimids; c.atts = v.atts; c.isrec = v.isrec; c.shape = v.shape; c.recelems = v.recelems; c.no_fill = v.no_fill; c.fill_known = v.fill_known; c.has_fillv = v.has_fillv; c.fillv = v.fillv; c.fresh = v.fresh; s->vars.push_back(c); }
    return s;
}
static void req_counts(MFile &f, Op &op) {
    op.exp_nreqs.clear(); op.exp_usage.clear(); op.exp_usage_tail.clear();
    if (f.bb) { for (size_t i = 0; i < f.ranks.size(); i++) { op.exp_nreqs.push_back(-1); op.exp_usage.push_back(-1); op.exp_usage_tail.push_back(-1); } return; }   // the burst-buffer driver keeps its own request table: request counts and buffer usage are not part of C12
    for (auto &r : f.ranks) { long long n = 0, u = 0; for (auto &q : r.reqs) if (q.live) { n++; if (q.kind == K_BPUT) u += q.abuf_bytes; } op.exp_nreqs.push_back(n); op.exp_usage.push_back(r.abuf ? u : -1); long long t = 0; for (auto &e : r.abuf_table) t += e.first; op.exp_usage_tail.push_back(r.abuf ? t : -1); }
}
static void do_enddef(MFile &f) {
    for (auto &v : f.vars) {
        if (!v.fresh) continue;
        // the fill is written by all ranks, each at its own pace: like any write it is ordered with later accesses of other ranks only by
        // the documented synchronisation ("If users want a stronger data consistency, ncmpi_sync() should be called", ncmpio_file_misc.c)
        if (v.isrec) { v.cells.clear(); v.nrec_alloc = 0; ensure_records(v, f.numrecs); for (auto &c : v.cells) { c = Cell(); c.st = v.no_fill ? CS_UNWRITTEN : CS_FILL; c.wmask = v.no_fill ? 0 : 0xff; } }
        else { v.cells.assign((size_t)v.recelems, Cell()); for (auto &c : v.cells) { c.st = v.no_fill ? CS_UNWRITTEN : CS_FILL; c.wmask = v.no_fill ? 0 : 0xff; } }
        v.fresh = false;
    }
    f.mode = FM_COLL; f.fresh = false; f.in_redef = false; f.saved.reset();
    sync_numrecs(f);
}

static void apply_put(MFile &f, MVar &v, int rank, const Access &a, int opidx, bool coll, long long &maxrec) {
    if (f.bb && !a.elems.empty() && rank < (int)f.ranks.size()) f.ranks[rank].bb_pending = true;
    for (size_t k = 0; k < a.elems.size(); k++) {
        long long e = a.elems[k];
        if (v.isrec) { long long rec = e / v.recelems; if (rec + 1 > maxrec) maxrec = rec + 1; ensure_records(v, rec + 1); }
        if (e < 0 || e >= (long long)v.cells.size()) continue;
        Cell &c = v.cells[(size_t)e];
        uint8_t me = (uint8_t)(1u << rank);
        uint8_t mark = f.aggr ? 0xff : me;   // with aggregation even the writer needs the documented synchronisation to see its data
        if ((c.wmask & ~me) && !(c.st == CS_VALUE && c.v == a.values[k])) { c.st = CS_UNKNOWN; c.wmask |= mark; if (f.bb) { c.bb |= me; c.bbx |= me; } continue; }   // unordered writes by different ranks
        if (!(c.st == CS_UNKNOWN && (c.wmask & ~me))) { c.st = CS_VALUE; c.v = a.values[k]; }
        c.wmask |= mark; if (f.bb) { c.bb |= me; c.bbx |= me; }
    }
}
static void expect_get(MFile &f, MVar &v, int rank, Access &a) {
    a.values.assign(a.elems.size(), 0); a.estate.assign(a.elems.size(), 2);
    std::map<long long, int> seen;   // elements named more than once by one varn request: only the first occurrence is checked (see known finding C02 overlapping reads)
    for (size_t k = 0; k < a.elems.size(); k++) {
        long long e = a.elems[k];
        if (e < 0 || e >= (long long)v.cells.size()) continue;
        const Cell &c = v.cells[(size_t)e];
        if (c.wmask & ~(uint8_t)(1u << rank)) continue;   // written by another rank and not yet ordered by the documented synchronisation
        if (f.bb && (c.bbpend || (c.bb & ~(uint8_t)(1u << rank)))) continue;   // burst buffer: a pending nonblocking put may or may not have been flushed already
        if (a.form == F_VARN && seen[e]++) continue;
        if (c.st == CS_VALUE) { a.values[k] = c.v; a.estate[k] = 0; }
        else if (c.st == CS_FILL) a.estate[k] = 1;
    }
}
// choose a memory type under which every expected value converts without range error
static void repair_memtype(const MVar &v, Access &a, bool is_read) {
    if (v.type == NC_CHAR) { a.memtype = MT_TEXT; return; }
    if (a.memtype == MT_TEXT) a.memtype = native_memtype(v.type);
    if (is_read) {
        bool need_native = false;
        for (size_t k = 0; k < a.estate.size(); k++) { if (a.estate[k] != 0) need_native = true; else if (a.values[k] > mem_maxval(a.memtype)) need_native = true; }
        if (need_native) a.memtype = native_memtype(v.type);
    }
}

// a write by 'rank' to (file,var,elems): earlier reads of the same elements by other ranks that no barrier has ordered
// before this write may legitimately see either value
static void invalidate_racing_reads(Model &m, int file, int var, int rank, const std::vector<long long> &elems) {
    if (!m.cur_ops || m.pending_reads.empty() || elems.empty()) return;
    std::vector<long long> sorted(elems); std::sort(sorted.begin(), sorted.end());
    for (auto &pr : m.pending_reads) {
        if (pr.file != file || pr.var != var || pr.rank == rank) continue;
        Op &ro = (*m.cur_ops)[pr.op]; if (pr.rank >= (int)ro.acc.size()) continue;
        Access &ra = ro.acc[pr.rank];
        for (size_t k = 0; k < ra.elems.size() && k < ra.estate.size(); k++) if (std::binary_search(sorted.begin(), sorted.end(), ra.elems[k])) { ra.estate[k] = 2; ra.rc_any = true; }
    }
}
// make the index arrays match the variable's rank (programs are re-targeted to other variables while shrinking)
static void normalise_access(const MVar &v, Access &a) {
    size_t nd = v.dimids.size();
    auto fix = [&](std::vector<long long> &x, long long pad) { if (x.size() != nd) x.resize(nd, pad); };
    fix(a.start, 0); fix(a.count, 1);
    if (!a.stride.empty()) fix(a.stride, 1);
    if (!a.imap.empty() && a.imap.size() != nd) { a.imap.assign(nd, 1); long long m = 1; for (int d = (int)nd - 1; d >= 0; d--) { a.imap[d] = m; m *= std::max<long long>(a.count[d], 1); } }
    for (auto &x : a.nstart) fix(x, 0);
    for (auto &x : a.ncount) fix(x, 1);
    if (a.ncount.size() != a.nstart.size()) a.ncount.resize(a.nstart.size(), std::vector<long long>(nd, 1));
    if (a.form == F_VARM && a.stride.empty()) a.stride.assign(nd, 1);
    if ((a.form == F_VARS || a.form == F_VARD) && a.stride.empty()) a.stride.assign(nd, 1);
    if (a.form == F_VARM && a.imap.empty()) { a.imap.assign(nd, 1); long long m = 1; for (int d = (int)nd - 1; d >= 0; d--) { a.imap[d] = m; m *= std::max<long long>(a.count[d], 1); } }
    if (a.form == F_VARM && a.flexible) {   // flexible varm: the buffer holds exactly product(count) elements, so the mapping must be a permutation
        std::vector<long long> idx(nd); long long n = 1, span = 0; for (auto c : a.count) n *= c;
        if (n > 0) { span = 1; for (size_t d = 0; d < nd; d++) span += (a.count[d] - 1) * a.imap[d]; if (span != n) { long long m = 1; for (int d = (int)nd - 1; d >= 0; d--) { a.imap[d] = m; m *= std::max<long long>(a.count[d], 1); } } }
    }
}
static void grow_numrecs(MFile &f, int rank, long long maxrec, bool coll) {
    if (f.bb) { if (maxrec > f.numrecs) f.numrecs = maxrec; if (maxrec > f.ranks[rank].numrecs) { f.ranks[rank].numrecs_dirty = true; if (coll) for (auto &r : f.ranks) r.numrecs_dirty = true; } return; }   // staged: the rank may or may not report its own staged records, nobody else does before a flush
    if (maxrec > f.numrecs) f.numrecs = maxrec;
    if (coll) return; // caller syncs
    if (maxrec > f.ranks[rank].numrecs) { f.ranks[rank].numrecs = maxrec; f.ranks[rank].numrecs_dirty = true; }
}

// burst-buffer fragment: records that pending nonblocking puts would add (in the file after any flush under the burst-buffer driver, only after their wait under the default driver)
static long long bb_pending_hi(const MFile &f) { long long hi = 0; if (f.bb) for (auto &r : f.ranks) for (auto &q : r.reqs) if (q.live && q.kind != K_IGET) hi = std::max(hi, q.maxrec); return hi; }
// is the number of records rank r sees determined (same under both drivers)?  Needed for whole-variable access to record variables.
static bool bb_numrecs_exact(const MFile &f, int r) { const MRank &rk = f.ranks[r]; long long hi = std::max(bb_pending_hi(f), (rk.numrecs_dirty || f.mode == FM_INDEP) ? std::max(rk.numrecs, f.numrecs) : rk.numrecs); return hi == rk.numrecs; }
// out-of-range element (NC_ERANGE): only 16-bit external types with a memory type that can hold 70000; returns the element index or -1
static int erange_index(const MFile &f, const MVar &v, const Access &a) {
    if (a.erange < 0 || f.bb || a.elems.empty() || v.dimids.empty() || (v.type != NC_SHORT && v.type != NC_USHORT)) return -1;
    switch (a.memtype) { case MT_INT: case MT_UINT: case MT_LONG: case MT_LONGLONG: case MT_ULONGLONG: case MT_FLOAT: case MT_DOUBLE: break; default: return -1; }
    return (int)(a.erange % (int)a.elems.size());
}
// NFC normalisation of the few decomposed sequences the generator produces (e / u / a + combining acute / diaeresis / grave)
std::string nfc_lite(const std::string &in) {
    static const struct { const char *from, *to; } tab[] = {{"\xcc\x81\xcc\x96", "\xcc\x96\xcc\x81"} /* canonical ordering of two marks (class 230 after class 220) */, {"e\xcc\x81", "\xc3\xa9"}, {"u\xcc\x88", "\xc3\xbc"}, {"a\xcc\x80", "\xc3\xa0"}};
    std::string s = in;
    for (auto &t : tab) { size_t pos = 0; std::string f = t.from; while ((pos = s.find(f, pos)) != std::string::npos) { s.replace(pos, f.size(), t.to); pos += strlen(t.to); } }
    return s;
}
static bool model_step_inner(Model &m, Op &op);
bool model_step(Model &m, Op &op) {
    bool ok = model_step_inner(m, op);
    op.exp_numrecs_lo.clear(); op.exp_numrecs_hi.clear();
    if (ok && op.file >= 0 && op.file < (int)m.files.size() && op.kind != OP_CHECKPOINT && op.kind != OP_BARRIER && op.kind != OP_BADID) {
        MFile &f = m.files[op.file];
        if (f.open && f.unlimdim() >= 0 && !f.ranks.empty())
            { long long ph = bb_pending_hi(f); for (auto &r : f.ranks) { op.exp_numrecs_lo.push_back(r.numrecs); op.exp_numrecs_hi.push_back(std::max(ph, r.numrecs_dirty || f.mode == FM_INDEP ? std::max(r.numrecs, f.numrecs) : r.numrecs)); } }
    }
    return ok;
}
static bool model_step_inner(Model &m, Op &op) {
    op.skip = false; op.exp_rc = NC_NOERR; op.rc_any = false; op.exp_rc_rank.clear(); op.exp_rc_alt.clear(); op.note.clear();
    int opidx = m.opidx++;
    op.snap.reset(); op.msnap.reset(); op.exp_nreqs.clear(); op.exp_usage.clear();
    if (op.kind == OP_BARRIER) { m.pending_reads.clear(); bb_ordered(m); return true; }
    if (op.kind == OP_BADID) { op.exp_rc = NC_EBADID; return true; }
    if (op.kind == OP_OPENPROBE || op.kind == OP_BIGCASE || op.kind == OP_MANYFILES) { op.rc_any = true; return true; }   // open an arbitrary byte image: handled entirely by the interpreter   // a call on an id that is not open: always applicable
    if (op.kind == OP_CHECKPOINT) {
        m.pending_reads.clear(); bb_ordered(m);
        if (op.a[0] == 1) { if (op.file < 0 || op.file >= (int)m.files.size() || !m.files[op.file].open || !m.files[op.file].in_redef) { op.skip = true; return false; } m.snap_state[op.file] = 1; op.name = m.files[op.file].path; }
        else if (op.a[0] == 2) { if (m.snap_state[op.file] != 2) { op.skip = true; return false; } m.snap_state[op.file] = 0; }
        else if (op.a[0] == 5 || op.a[0] == 6) { if (op.file < 0 || op.file >= (int)m.files.size() || !m.files[op.file].open) { op.skip = true; return false; } op.name = m.files[op.file].path; }
        else if (op.a[0] == 3 || op.a[0] == 4) { if (op.file < 0 || op.file >= (int)m.files.size() || !m.files[op.file].open) { op.skip = true; return false; } op.name = m.files[op.file].path; }
        op.msnap = std::make_shared<Model>(m); op.msnap->pending_reads.clear(); return true;
    }
    if (op.file < 0 || op.file >= (int)m.files.size()) { op.skip = true; return false; }
    MFile &f = m.files[op.file];
    auto skip = [&]() { op.skip = true; return false; };
    const std::string nm = nfc_lite(op.name), nm2 = nfc_lite(op.name2);   // names are stored and compared in NFC; the raw spelling is what the call passes
    if (op.alt_rank >= 0 && (op.kind == OP_DEF_DIM || op.kind == OP_DEF_VAR || op.kind == OP_RENAME_DIM || op.kind == OP_RENAME_VAR || op.kind == OP_PUT_ATT || op.kind == OP_ENDDEF2)) {
        // C08: one rank passes a different name / value to a collective metadata call.  In safe mode every rank must get the same error and nothing may change;
        // without safe mode the behaviour is undefined, so the disagreement is dropped (the op is executed with agreeing arguments).
        bool differs = op.alt_name.empty() ? (op.alt_val != (op.kind == OP_ENDDEF2 ? op.a[1] : op.a[0])) : (op.alt_name != ((op.kind == OP_RENAME_DIM || op.kind == OP_RENAME_VAR) ? op.name2 : op.name));
        if (op.kind == OP_DEF_VAR && op.alt_name.empty() && !type_ok_for_format((int)op.alt_val, f.open ? f.format : 1)) differs = false;
        if (op.kind == OP_DEF_DIM && op.alt_name.empty() && op.alt_val <= 0) differs = false;
        if ((op.kind == OP_RENAME_DIM || op.kind == OP_RENAME_VAR) && op.alt_name.empty()) differs = false;
        if (op.kind == OP_PUT_ATT && op.alt_name.empty()) differs = op.att.v.size() >= 2 && op.att.type != NC_CHAR;   // value disagreement: the last element differs on one rank
        if (m.safe_mode && m.nprocs > 1 && op.alt_rank < m.nprocs && differs) {
            Model t = m; t.cur_ops = nullptr; t.opidx = opidx; Op o2 = op; o2.alt_rank = -1; bool ok = model_step_inner(t, o2);
            if (ok && !o2.skip && o2.exp_rc == NC_NOERR && o2.exp_rc_rank.empty()) { op.rc_any = true; op.note = "multidefine"; return true; }   // state unchanged
        }
    }
    switch (op.kind) {
    case OP_CREATE: {
        if (f.open || op.name.empty()) return skip();
        for (auto &o : m.files) if (o.open && o.path == op.name) return skip();
        MFile n; n.open = true; n.path = op.name; n.format = (int)op.a[0]; if (n.format != 1 && n.format != 2 && n.format != 5) n.format = 1;
        n.mode = FM_DEFINE; n.fresh = true; n.ranks.assign(m.nprocs, MRank());
        n.bb = m.bb_rules;
        n.aggr = m.aggr_env || op.hints.count("nc_num_aggrs_per_node");
        m.disk.erase(op.name);
        m.absent.erase(std::remove(m.absent.begin(), m.absent.end(), op.name), m.absent.end());
        f = n; return true;
    }
    case OP_OPEN: {
        if (f.open) return skip();
        for (auto &o : m.files) if (o.open && o.path == op.name) return skip();
        auto it = m.disk.find(op.name); if (it == m.disk.end()) return skip();
        f = it->second; f.open = true; f.mode = FM_COLL; f.readonly = (op.a[0] == 0); f.fresh = false; f.first_layout = false; f.in_redef = false; f.saved.reset(); f.fill = false; /* the dataset fill mode is not stored in the file */
        f.ranks.assign(m.nprocs, MRank()); sync_numrecs(f); mark_synced(f);
        for (auto &v : f.vars) { v.fresh = false; v.fill_known = false; for (auto &c : v.cells) c.wmask = 0; }
        f.bb = m.bb_rules; for (auto &v : f.vars) for (auto &c : v.cells) { c.bb = c.bbx = 0; c.bbpend = 0; }
        f.aggr = m.aggr_env || op.hints.count("nc_num_aggrs_per_node");
        return true;
    }
    case OP_CLOSE: case OP_ABORT: {
        if (!f.open) return skip();
        if (f.poisoned && op.kind == OP_CLOSE) return skip();   // (close would run enddef: not modelled)
        if (any_pending(f) && op.a[0] == 0) return skip();
        if (op.kind == OP_ABORT && any_pending(f)) { op.exp_rc_rank.assign(m.nprocs, NC_NOERR); for (int r = 0; r < m.nprocs; r++) for (auto &q : f.ranks[r].reqs) if (q.live) op.exp_rc_rank[r] = NC_EPENDING; }
        if (op.kind == OP_ABORT && (f.fresh && f.mode == FM_DEFINE)) { m.disk.erase(f.path); m.absent.push_back(f.path); f = MFile(); return true; }
        if (op.kind == OP_ABORT && f.in_redef && f.saved) { MFile s = *f.saved; s.open = false; s.ranks.clear(); m.disk[s.path] = s; f = MFile(); if (m.snap_state[op.file] == 1) { m.snap_state[op.file] = 2; op.name = s.path; } return true; }
        m.snap_state[op.file] = 0;
        if (f.mode == FM_DEFINE) do_enddef(f);
        if (any_pending(f)) { op.exp_rc_rank.assign(m.nprocs, NC_NOERR); for (int r = 0; r < m.nprocs; r++) for (auto &q : f.ranks[r].reqs) if (q.live) op.exp_rc_rank[r] = NC_EPENDING; }
        bb_flush_all(f); sync_numrecs(f); mark_synced(f);
        MFile s = f; s.open = false; s.ranks.clear(); s.saved.reset(); m.disk[s.path] = s; f = MFile(); return true;
    }
    case OP_PROBE: {
        // one call from an API family, issued identically by every rank; expected outcome from the mode automaton (C14)
        if (!f.open) return skip();
        bool def = f.mode == FM_DEFINE, coll = f.mode == FM_COLL, indep = f.mode == FM_INDEP, ro = f.readonly;
        op.exp_rc_alt.clear(); int rc = NC_NOERR;
        auto both = [&](int first, int second) { rc = first; op.exp_rc_alt.push_back(second); };
        switch (op.a[0]) {
        case 0: case 17: rc = op.a[0] == 17 ? NC_ENOTVAR : NC_NOERR; break;                       // inq / inq_varid(unknown)
        case 1: case 2: case 15:                                                                  // def_dim / put_att(new) / set_fill: define mode only, write permission
            if (ro && !def) both(NC_EPERM, NC_ENOTINDEFINE); else if (!def) rc = NC_ENOTINDEFINE;
            if (op.a[0] == 2 && ro) { rc = NC_EPERM; op.exp_rc_alt.clear(); }                      // documented precedence for put att: NC_EPERM first
            if (rc == NC_NOERR && op.a[0] == 1) { MDim d; d.name = op.name; d.len = 2; for (auto &x : f.dims) if (x.name == d.name) return skip(); f.dims.push_back(d); }
            if (rc == NC_NOERR && op.a[0] == 2) { for (auto &x : f.gatts) if (x.name == op.name) return skip(); MAtt a; a.name = op.name; a.type = NC_INT; a.v = {7}; f.gatts.push_back(a); }
            if (rc == NC_NOERR && op.a[0] == 15) { f.fill = op.a[1] != 0; for (auto &v : f.vars) { v.no_fill = !f.fill; v.fill_known = true; } }
            break;
        case 4: case 6: case 21:                                                                  // collective get / put of one element of variable 0 (21: the put through ncmpi_mput_vara_double_all)
            if (f.vars.empty()) return skip();
            if (op.a[0] != 4 && ro) rc = NC_EPERM; else if (def) rc = NC_EINDEFINE; else if (indep) rc = NC_EINDEP;     // documented precedence: EPERM, EINDEFINE, ...
            break;
        case 5: case 22:                                                                          // independent get (22: through ncmpi_mget_vara_double)
            if (f.vars.empty()) return skip();
            if (def) rc = NC_EINDEFINE; else if (coll) rc = NC_ENOTINDEP;
            break;
        case 7: if (f.vars.empty()) return skip(); if (ro) rc = NC_EPERM; break;                   // iput (allowed in any mode) followed by cancel
        case 8: if (def) rc = NC_EINDEFINE; else if (indep) rc = NC_EINDEP; break;                 // wait_all
        case 9: if (def) rc = NC_EINDEFINE; else if (coll) rc = NC_ENOTINDEP; break;               // wait
        case 10: rc = NC_NOERR; break;                                                            // cancel(NC_REQ_ALL)
        case 11: case 16: if (def) rc = NC_EINDEFINE; else if (op.a[0] == 16 && ro) op.exp_rc_alt.push_back(NC_EPERM); break;   // sync / sync_numrecs (the latter writes the header: read-only may be refused)
        case 14: rc = NC_NOERR; break;                                                            // buffer attach + detach
        case 20:                                                                                  // two over-sized fixed variables are defined and ncmpi_enddef is called: it must fail and leave the file in define mode
            if (!def || ro || f.poisoned || f.format == 5) return skip();
            rc = NC_EVARSIZE; f.poisoned = true; break;
        default: return skip();
        }
        if ((op.a[0] == 4 || op.a[0] == 5 || op.a[0] == 6 || op.a[0] == 21 || op.a[0] == 22) && rc == NC_NOERR) {
            // the transfer itself: element 0 of variable 0 (records: record 0 must exist for reads)
            MVar &v = f.vars[0];
            if (v.type == NC_CHAR) return skip();
            bool isput = op.a[0] == 6 || op.a[0] == 21;
            if (v.isrec && f.numrecs == 0 && !isput) return skip();
            if (v.recelems == 0) return skip();
            if (isput) { ensure_records(v, 1); Cell &c = v.cells[0]; c.st = CS_UNKNOWN; c.wmask = 0xff; if (v.isrec && f.numrecs < 1) { f.numrecs = 1; sync_numrecs(f); } }
        }
        if ((op.a[0] == 8 || op.a[0] == 9) && rc == NC_NOERR) { for (auto &r : f.ranks) for (auto &q : r.reqs) if (q.live) return skip(); }
        if (op.a[0] == 10) for (auto &r : f.ranks) for (auto &q : r.reqs) if (q.live) return skip();
        op.exp_rc = rc; return true;
    }
    case OP_REDEF: {
        if (op.a[4] == 1 && f.open && (f.mode == FM_DEFINE || f.readonly)) { op.exp_rc = f.readonly ? NC_EPERM : NC_EINDEFINE; if (f.readonly && f.mode == FM_DEFINE) op.exp_rc_alt = {NC_EINDEFINE}; return true; }
        if (!f.open || f.mode == FM_DEFINE || f.readonly) return skip();
        bb_flush_all(f); sync_numrecs(f);
        f.saved = std::make_shared<MFile>(f); f.saved->saved.reset(); f.saved->mode = FM_COLL;
        f.mode = FM_DEFINE; f.in_redef = true; return true;
    }
    case OP_ENDDEF: case OP_ENDDEF2: if (f.open && f.poisoned) { if (op.a[4] == 1) { op.exp_rc = NC_EVARSIZE; return true; } return skip(); } if (op.a[4] == 1 && f.open && f.mode != FM_DEFINE) { op.exp_rc = NC_ENOTINDEFINE; return true; } if (!f.open || f.mode != FM_DEFINE) return skip(); { bool wf = f.fresh; do_enddef(f); f.first_layout = wf; for (int k = 0; k < 4; k++) f.ed[k] = (op.kind == OP_ENDDEF2) ? op.a[k] : 0; } m.snap_state[op.file] = 0; return true;
    // collective and independent accesses go through different MPI file handles (and, with aggregation, through other ranks): data written
    // before a mode switch is only ordered with accesses after it by the documented sync-barrier-sync, even on the writing rank itself
    case OP_BEGIN_INDEP: if (op.a[4] == 1 && f.open && f.mode == FM_DEFINE) { op.exp_rc = NC_EINDEFINE; return true; } if (op.a[4] == 1 && f.open && f.mode == FM_INDEP) { op.exp_rc = NC_NOERR; return true; } if (!f.open || f.mode != FM_COLL) return skip(); f.mode = FM_INDEP; for (auto &v : f.vars) for (auto &c : v.cells) if (c.wmask) c.wmask = 0xff; return true;
    case OP_END_INDEP: if (op.a[4] == 1 && f.open && f.mode == FM_DEFINE) { op.exp_rc = NC_EINDEFINE; return true; } if (op.a[4] == 1 && f.open && f.mode == FM_COLL) { op.exp_rc = NC_NOERR; return true; } if (!f.open || f.mode != FM_INDEP) return skip(); f.mode = FM_COLL; sync_numrecs(f); for (auto &v : f.vars) for (auto &c : v.cells) if (c.wmask) c.wmask = 0xff; return true;
    case OP_SYNC: if (!f.open || f.mode == FM_DEFINE) return skip(); bb_flush_all(f); sync_numrecs(f); return true;
    case OP_SYNC_NUMRECS: if (!f.open || f.mode == FM_DEFINE) return skip(); sync_numrecs(f); return true;
    case OP_FLUSH: if (!f.open || f.mode == FM_DEFINE) return skip(); if (f.bb) { bb_flush_all(f); if (f.mode == FM_COLL) sync_numrecs(f); } return true;
    case OP_SYNCPOINT: if (!f.open || f.mode == FM_DEFINE) return skip(); bb_flush_all(f); sync_numrecs(f); mark_synced(f); m.pending_reads.clear(); return true;
    case OP_SET_FILL: if (!f.open || f.mode != FM_DEFINE) return skip(); f.fill = (op.a[0] != 0); for (auto &v : f.vars) { v.no_fill = !f.fill; v.fill_known = true; } return true;
    case OP_DEF_DIM: {
        if (!f.open || f.mode != FM_DEFINE || nm.empty() || op.a[0] < 0) return skip();
        for (auto &d : f.dims) if (d.name == nm) return skip();
        if (op.a[0] == 0 && f.unlimdim() >= 0) return skip();
        MDim d; d.name = nm; d.len = op.a[0]; f.dims.push_back(d); return true;
    }
    case OP_DEF_VAR: {
        if (!f.open || f.mode != FM_DEFINE || nm.empty()) return skip();
        for (auto &v : f.vars) if (v.name == nm) return skip();
        if (!type_ok_for_format((int)op.a[0], f.format)) return skip();
        MVar v; v.name = nm; v.type = (int)op.a[0]; v.no_fill = !f.fill; v.recelems = 1;
        if (!op.dims.empty() && f.dims.empty()) return skip();
        for (size_t i = 0; i < op.dims.size(); i++) {
            int d = (int)(((op.dims[i] % (long long)f.dims.size()) + f.dims.size()) % f.dims.size());
            if (f.dims[d].len == 0) { if (i != 0) return skip(); v.isrec = true; }
            v.dimids.push_back(d); v.shape.push_back(f.dims[d].len);
            if (f.dims[d].len != 0) v.recelems *= f.dims[d].len;
        }
        if (v.recelems > (1 << 14)) return skip();
        f.vars.push_back(v); return true;
    }
    case OP_DEF_VAR_FILL: {
        if (!f.open || f.mode != FM_DEFINE) return skip();
        int vi = resolve_var(f, op.var); if (vi < 0) return skip();
        MVar &v = f.vars[vi]; op.var = vi;
        if (!v.fresh) return skip();   // changing the fill mode of an existing variable has no retroactive meaning: stay inside the documented fragment
        v.no_fill = op.a[0] != 0;
        if (!v.no_fill && op.a[1]) {
            long long fv = 1 + ((op.a[2] - 1) % type_maxval(v.type) + type_maxval(v.type)) % type_maxval(v.type);   // idempotent
            v.has_fillv = true; v.fillv = fv; op.a[2] = fv;
            MAtt *a = find_att(v.atts, "_FillValue"); if (!a) { v.atts.push_back(MAtt()); a = &v.atts.back(); a->name = "_FillValue"; }
            a->type = v.type; a->v = {fv};
        }
        return true;
    }
    case OP_FILL_VAR_REC: {
        if (!f.open || f.mode != FM_COLL || f.readonly) return skip();
        if (f.bb) return skip();   // fill_var_rec bypasses the log: its order relative to staged writes is outside the documented fragment
        int vi = resolve_var(f, op.var); if (vi < 0) return skip();
        MVar &v = f.vars[vi]; op.var = vi; if (!v.isrec || !v.fill_known || op.a[0] < 0) return skip();
        if (v.no_fill && !v.has_fillv) { op.exp_rc = NC_ENOTFILL; return true; }   // refused, no effect; with a _FillValue attribute the call is permitted on a no-fill variable and uses that value
        long long rec = op.a[0];
        if (op.a[1] > 0 && m.nprocs > 1) {
            // odd ranks name record a0 + a1: without safe mode every rank fills its share of the record it named (those records end up partly filled: contents unspecified),
            // and the record count becomes one plus the highest record named by any rank, on every rank and in the file
            if (m.safe_mode) return skip();
            long long hi = rec + op.a[1]; ensure_records(v, hi + 1);
            for (long long rr : {rec, hi}) for (long long k = 0; k < v.recelems; k++) { Cell &c = v.cells[(size_t)(rr * v.recelems + k)]; c = Cell(); c.st = CS_UNKNOWN; c.wmask = (uint8_t)((1u << m.nprocs) - 1); }
            if (hi + 1 > f.numrecs) f.numrecs = hi + 1;
            sync_numrecs(f); return true;
        }
        op.a[1] = 0;
        ensure_records(v, rec + 1);
        for (long long k = 0; k < v.recelems; k++) { Cell &c = v.cells[(size_t)(rec * v.recelems + k)]; bool racy = c.wmask != 0; c = Cell(); c.st = racy ? CS_UNKNOWN : CS_FILL; c.wmask = (uint8_t)((1u << m.nprocs) - 1); }
        if (rec + 1 > f.numrecs) f.numrecs = rec + 1;
        sync_numrecs(f); return true;
    }
    case OP_PUT_ATT: {
        if (!f.open || nm.empty() || f.readonly) return skip();
        if (!(op.a[3] > 0 && !op.att.v.empty() && (op.att.type == NC_BYTE || op.att.type == NC_UBYTE || op.att.type == NC_SHORT || op.att.type == NC_USHORT) && op.alt_rank < 0)) op.a[3] = 0;   // the out-of-range form exists for 8/16-bit integer attributes only
        std::vector<MAtt> *l = &f.gatts;
        if (op.var >= 0) { int vi = resolve_var(f, op.var); if (vi < 0) return skip(); l = &f.vars[vi].atts; op.var = vi; }
        if (!type_ok_for_format(op.att.type, f.format)) return skip();
        if (nm == "_FillValue") return skip();
        MAtt *a = find_att(*l, nm);
        if (f.mode != FM_DEFINE) {
            if (f.mode == FM_INDEP) return skip();
            if (m.safe_mode && m.nprocs > 1) { if (!a) return skip(); }
            // data mode: permitted exactly when the attribute exists and its padded size in the header does not grow; otherwise refused with NC_ENOTINDEFINE and nothing changes
            auto pad4 = [](long long x) { return (x + 3) / 4 * 4; };
            if (!a || pad4((long long)op.att.v.size() * nc_type_size(op.att.type)) > pad4((long long)a->v.size() * nc_type_size(a->type))) { op.exp_rc = NC_ENOTINDEFINE; return true; }
        }
        long long mx = type_maxval(op.att.type);
        for (auto &x : op.att.v) x = 1 + (((x - 1) % mx) + mx) % mx;   // into [1, mx]; idempotent (programs are re-annotated on replay / by C10)
        if (!a) { l->push_back(MAtt()); a = &l->back(); a->name = nm; }
        a->type = op.att.type; a->v = op.att.v; a->unk = -1;
        // a[3] > 0: the value is passed as int and element (a[3]-1) mod n is 70000, outside the range of an 8/16-bit external type: the call returns NC_ERANGE, the attribute is
        // still defined / overwritten (in memory and, in data mode, in the file) and only that element is unspecified
        if (op.a[3] > 0 && !op.att.v.empty() && (op.att.type == NC_BYTE || op.att.type == NC_UBYTE || op.att.type == NC_SHORT || op.att.type == NC_USHORT) && op.alt_rank < 0) { a->unk = (int)((op.a[3] - 1) % (long long)op.att.v.size()); op.exp_rc = NC_ERANGE; }
        else op.a[3] = 0;
        return true;
    }
    case OP_DEL_ATT: {
        if (!f.open || f.mode != FM_DEFINE) return skip();
        std::vector<MAtt> *l = &f.gatts;
        if (op.var >= 0) { int vi = resolve_var(f, op.var); if (vi < 0) return skip(); l = &f.vars[vi].atts; op.var = vi; }
        if (l->empty()) return skip();
        size_t i = (size_t)(((op.a[0] % (long long)l->size()) + l->size()) % l->size());
        if ((*l)[i].name == "_FillValue") return skip();
        op.name = (*l)[i].name; l->erase(l->begin() + i); return true;
    }
    case OP_COPY_ATT: {   // file/var = source, a[0] = destination file slot, a[1] = destination variable (-1 global), a[2] = index of the attribute in the source list
        if (!f.open) return skip();
        int ds = (int)op.a[0]; if (ds < 0 || ds >= (int)m.files.size()) return skip();
        MFile &g = m.files[ds]; if (!g.open) return skip();
        int sv = -1, dv = -1;
        if (op.var >= 0) { sv = resolve_var(f, op.var); if (sv < 0) return skip(); }
        if (op.a[1] >= 0) { dv = resolve_var(g, (int)op.a[1]); if (dv < 0) return skip(); }
        std::vector<MAtt> *sl = sv >= 0 ? &f.vars[sv].atts : &f.gatts, *dl = dv >= 0 ? &g.vars[dv].atts : &g.gatts;
        if (sl->empty()) return skip();
        size_t i = (size_t)(((op.a[2] % (long long)sl->size()) + sl->size()) % sl->size());
        MAtt src = (*sl)[i];
        if (src.name == "_FillValue" || !type_ok_for_format(src.type, g.format)) return skip();
        op.var = sv; op.a[1] = dv; op.name = src.name;
        if (g.readonly) { op.exp_rc = NC_EPERM; return true; }   // write permission of the destination is checked first
        if (sl == dl) return true;   // copying an attribute onto itself changes nothing
        MAtt *d = find_att(*dl, src.name);
        auto pad4 = [](long long x) { return (x + 3) / 4 * 4; };
        if (g.mode != FM_DEFINE) { if (g.mode == FM_INDEP) return skip(); if (!d || pad4((long long)src.v.size() * nc_type_size(src.type)) > pad4((long long)d->v.size() * nc_type_size(d->type))) { op.exp_rc = NC_ENOTINDEFINE; return true; } }   // data mode: a new attribute or a larger padded size is refused, nothing changes
        if (!d) dl->push_back(src); else *d = src;
        return true;
    }
    case OP_RENAME_ATT: {
        if (!f.open || f.readonly || nm2.empty()) return skip();
        std::vector<MAtt> *l = &f.gatts;
        if (op.var >= 0) { int vi = resolve_var(f, op.var); if (vi < 0) return skip(); l = &f.vars[vi].atts; op.var = vi; }
        if (l->empty()) return skip();
        size_t i = (size_t)(((op.a[0] % (long long)l->size()) + l->size()) % l->size());
        if ((*l)[i].name == "_FillValue" || nm2 == "_FillValue") return skip();
        if (find_att(*l, nm2)) { if (f.mode == FM_DEFINE && nm2 != op.name2 && find_att(*l, nm2) != &(*l)[i]) { op.name = (*l)[i].name; op.exp_rc = NC_ENAMEINUSE; return true; } return skip(); }   // a non-NFC spelling of a name already in use is still in use
        if (f.mode != FM_DEFINE && (nm2.size() > (*l)[i].name.size() || f.mode == FM_INDEP)) return skip();
        op.name = (*l)[i].name; (*l)[i].name = nm2; return true;
    }
    case OP_RENAME_DIM: {
        if (!f.open || f.readonly || f.dims.empty() || nm2.empty()) return skip();
        size_t i = (size_t)(((op.dim % (int)f.dims.size()) + f.dims.size()) % f.dims.size());
        for (size_t k = 0; k < f.dims.size(); k++) if (f.dims[k].name == nm2) { if (f.mode == FM_DEFINE && nm2 != op.name2 && k != i) { op.dim = (int)i; op.exp_rc = NC_ENAMEINUSE; return true; } return skip(); }
        if (f.mode != FM_DEFINE && (nm2.size() > f.dims[i].name.size() || f.mode == FM_INDEP)) return skip();
        op.dim = (int)i; f.dims[i].name = nm2; return true;
    }
    case OP_RENAME_VAR: {
        if (!f.open || f.readonly || f.vars.empty() || nm2.empty()) return skip();
        int vi = resolve_var(f, op.var);
        for (size_t k = 0; k < f.vars.size(); k++) if (f.vars[k].name == nm2) { if (f.mode == FM_DEFINE && nm2 != op.name2 && (int)k != vi) { op.var = vi; op.exp_rc = NC_ENAMEINUSE; return true; } return skip(); }
        if (f.mode != FM_DEFINE && (nm2.size() > f.vars[vi].name.size() || f.mode == FM_INDEP)) return skip();
        op.var = vi; f.vars[vi].name = nm2; return true;
    }
    case OP_ATTACH: {
        if (!f.open) return skip();
        for (auto &r : f.ranks) if (r.abuf) return skip();
        if (op.a[0] <= 0) return skip();
        for (auto &r : f.ranks) { r.abuf = true; r.abuf_size = op.a[0]; r.abuf_used = 0; r.abuf_table.clear(); }
        return true;
    }
    case OP_DETACH: {
        if (!f.open) return skip();
        for (auto &r : f.ranks) { if (!r.abuf) return skip(); for (auto &q : r.reqs) if (q.live && q.kind == K_BPUT) return skip(); }
        for (auto &r : f.ranks) { r.abuf = false; r.abuf_size = r.abuf_used = 0; }
        return true;
    }
    case OP_INQ: if (!f.open) return skip(); op.snap = schema_copy(f); return true;
    case OP_PUT: case OP_GET: {
        if (!f.open) return skip();
        bool is_read = op.kind == OP_GET;
        if (f.mode == FM_DEFINE || (op.coll && f.mode != FM_COLL) || (!op.coll && f.mode != FM_INDEP)) return skip();
        if (!is_read && f.readonly) return skip();
        int vi = resolve_var(f, op.var); if (vi < 0) return skip();
        op.var = vi; MVar &v = f.vars[vi];
        if ((int)op.acc.size() != m.nprocs) return skip();
        op.exp_rc_rank.assign(m.nprocs, NC_NOERR);
        if (op.coll && v.dimids.empty()) {   // a scalar has no zero-length request: every rank of a collective call takes part (writes: same value)
            int src = -1; for (int r = 0; r < m.nprocs; r++) if (op.acc[r].active) { src = r; break; }
            if (src < 0) return skip();
            for (int r = 0; r < m.nprocs; r++) if (!op.acc[r].active) { op.acc[r] = op.acc[src]; }
        }
        if (op.coll) {   // all ranks of one collective call use the same API family (var1/var/vara/vars/varm | varn | vard)
            int fam = -1; for (auto &a : op.acc) if (a.active) { int f2 = a.form == F_VARN ? 1 : a.form == F_VARD ? 2 : 0; if (fam < 0) fam = f2; else if (fam != f2) return skip(); }
        }
        if (is_read && f.bb) {   // burst buffer: a read flushes the reader's own log first (all logs, and the record count is agreed, in a collective read)
            // how many records a whole-variable read covers is not determined while staged records are around
            for (int r = 0; r < m.nprocs; r++) if (op.acc[r].active && op.acc[r].form == F_VAR && v.isrec && (op.coll ? bb_pending_hi(f) > f.numrecs : !bb_numrecs_exact(f, r))) return skip();
            if (op.coll) { bb_flush_all(f); sync_numrecs(f); }
        }
        if (!is_read && f.bb) for (int r = 0; r < m.nprocs; r++) if (op.acc[r].active && op.acc[r].form == F_VAR && v.isrec && !bb_numrecs_exact(f, r)) return skip();
        // first pass: validity and element lists (reads see the state before this op)
        for (int r = 0; r < m.nprocs; r++) {
            Access &a = op.acc[r]; a.elems.clear(); a.exp_rc = NC_NOERR; a.rc_any = false; a.erange_k = -1;
            if (!a.active) continue;
            if (a.invalid == INV_TYPE_CHAR) { a.flexible = false; a.memtype = (v.type == NC_CHAR) ? MT_INT : MT_TEXT; }
            else if (v.type == NC_CHAR) a.memtype = MT_TEXT; else if (a.memtype == MT_TEXT) a.memtype = native_memtype(v.type);
            normalise_access(v, a);
            bool fatal; int rc = predict_access_rc(f, r, vi, a, is_read, is_read ? K_GET : K_PUT, op.coll, m.strict_coord, fatal);
            a.exp_rc = rc; op.exp_rc_rank[r] = rc;
            if (rc != NC_NOERR) continue;
            if (a.form == F_VAR) {   // whole variable
                a.start.assign(v.dimids.size(), 0); a.count = v.shape; if (v.isrec) a.count[0] = f.ranks[r].numrecs; a.stride.clear();
            }
            if (a.form == F_VAR1) a.count.assign(v.dimids.size(), 1);
            acc_elems(v, a, a.elems);
            if (is_read) { expect_get(f, v, r, a); repair_memtype(v, a, true); }
        }
        if (op.coll && m.safe_mode && m.nprocs > 1) {   // safe mode: the smallest error code is returned by every rank and nothing is transferred
            int mn = NC_NOERR; for (int r = 0; r < m.nprocs; r++) if (op.acc[r].active) mn = std::min(mn, op.acc[r].exp_rc);
            if (mn != NC_NOERR) { for (int r = 0; r < m.nprocs; r++) { op.acc[r].exp_rc = mn; op.exp_rc_rank[r] = mn; op.acc[r].elems.clear(); } op.note = "safe-mode-shared-error"; }
        }
        if (f.bb && !is_read) {   // burst-buffer fragment (documented limitations): no element written twice between flushes, no vard (it bypasses the log)
            for (int r = 0; r < m.nprocs; r++) { Access &a = op.acc[r]; if (!a.active) continue; if (a.form == F_VARD) return skip(); if (a.exp_rc == NC_NOERR && bb_conflict(f, v, a.elems, r)) return skip(); }
        }
        if (is_read) { op.snap = schema_copy(f); for (int r = 0; r < m.nprocs; r++) if (op.acc[r].active && op.acc[r].exp_rc == NC_NOERR) m.pending_reads.push_back({opidx, r, op.file, vi}); }
        if (is_read && f.bb && !op.coll) for (int r = 0; r < m.nprocs; r++) if (op.acc[r].active && op.acc[r].exp_rc == NC_NOERR) { if (!op.acc[r].elems.empty()) bb_flush(f, r); else for (auto &q : f.ranks[r].reqs) if (q.live) q.bb_flushed = true; /* a zero-length read may or may not reach the driver (depends on the API form): the log may or may not have been flushed */ }   // an independent read of at least one element flushes the reader's own log (a zero-length one returns before reaching the driver)
        if (!is_read) op.a[5] = v.isrec ? 1 : 0;   // (for attribution of the C08 known finding)
        if (!is_read) {
            // values: unique per (op, rank, element); detect intra-op overlap between ranks
            std::map<long long, int> owner;
            long long maxrec_all = 0;
            for (int r = 0; r < m.nprocs; r++) {
                Access &a = op.acc[r]; if (!a.active || a.exp_rc != NC_NOERR) continue;
                long long mx = std::min(type_maxval(v.type), mem_maxval(a.memtype));
                a.values.resize(a.elems.size());
                if (v.dimids.empty()) { mx = type_maxval(v.type); for (int q = 0; q < m.nprocs; q++) if (op.acc[q].active) mx = std::min(mx, mem_maxval(op.acc[q].memtype)); }
                for (size_t k = 0; k < a.elems.size(); k++) a.values[k] = value_for(opidx, v.dimids.empty() ? 0 : (a.vrank >= 0 ? a.vrank : r), (long long)k, mx);
                long long maxrec = 0;
                a.erange_k = erange_index(f, v, a);
                if (a.erange_k >= 0) { a.values[(size_t)a.erange_k] = 70000 + a.erange_k % 7; a.exp_rc = NC_ERANGE; op.exp_rc_rank[r] = NC_ERANGE; }   // the call still transfers every other element and returns NC_ERANGE
                apply_put(f, v, r, a, opidx, op.coll, maxrec);
                if (a.erange_k >= 0) { long long e = a.elems[(size_t)a.erange_k]; if (e >= 0 && e < (long long)v.cells.size()) v.cells[(size_t)e].st = CS_UNKNOWN; }
                invalidate_racing_reads(m, op.file, vi, r, a.elems);
                for (size_t k = 0; k < a.elems.size(); k++) {
                    auto it = owner.find(a.elems[k]);
                    if (it != owner.end() && a.elems[k] < (long long)v.cells.size() && !v.dimids.empty()) v.cells[(size_t)a.elems[k]].st = CS_UNKNOWN;   // written twice within one op
                    owner[a.elems[k]] = r;
                }
                grow_numrecs(f, r, maxrec, op.coll); maxrec_all = std::max(maxrec_all, maxrec);
            }
            if (op.coll) sync_numrecs(f);
        }
        return true;
    }
    case OP_IPUT: case OP_IGET: case OP_BPUT: {
        if (!f.open) return skip();
        bool is_read = op.kind == OP_IGET; int kind = op.kind == OP_IPUT ? K_IPUT : op.kind == OP_IGET ? K_IGET : K_BPUT;
        if (!is_read && f.readonly) return skip();
        int vi = resolve_var(f, op.var); if (vi < 0) return skip();
        op.var = vi; MVar &v = f.vars[vi];
        if (v.fresh && false) return skip();
        if ((int)op.acc.size() != m.nprocs) return skip();
        op.exp_rc_rank.assign(m.nprocs, NC_NOERR);
        MFile bb_backup; if (f.bb) bb_backup = f;
        auto bbskip = [&]() { m.files[op.file] = bb_backup; op.skip = true; return false; };   // burst-buffer fragment: undo what earlier ranks of this op queued
        for (int r = 0; r < m.nprocs; r++) {
            Access &a = op.acc[r]; a.elems.clear(); a.exp_rc = NC_NOERR; a.rc_any = false; a.reqslot = -1; a.erange_k = -1;
            if (!a.active) continue;
            if (v.type == NC_CHAR) a.memtype = MT_TEXT; else if (a.memtype == MT_TEXT) a.memtype = native_memtype(v.type);
            normalise_access(v, a);
            bool fatal; int rc = predict_access_rc(f, r, vi, a, is_read, kind, false, m.strict_coord, fatal);
            MRank &rk = f.ranks[r];
            if (f.bb && a.form == F_VAR && v.isrec && !bb_numrecs_exact(f, r)) return bbskip();
            if (rc == NC_NOERR && kind == K_BPUT && !rk.abuf) rc = NC_ENULLABUF;
            if (f.bb && kind == K_BPUT && rc == NC_ENULLABUF) return bbskip();   // the burst-buffer driver has no attached buffer: outside the common fragment
            if (rc == NC_NOERR) {
                if (a.form == F_VAR) { a.start.assign(v.dimids.size(), 0); a.count = v.shape; if (v.isrec) a.count[0] = rk.numrecs; a.stride.clear(); }
                if (a.form == F_VAR1) a.count.assign(v.dimids.size(), 1);
                acc_elems(v, a, a.elems);
                long long nbytes = (long long)a.elems.size() * nc_type_size(v.type);
                if (kind == K_BPUT && rk.abuf_size - rk.abuf_used < nbytes) rc = NC_EINSUFFBUF;
                a.tail_hazard = false; if (kind == K_BPUT && rc == NC_NOERR) { long long t = 0; for (auto &e : rk.abuf_table) t += e.first; if (rk.abuf_size - t < nbytes) a.tail_hazard = true; }
                if (f.bb && rc == NC_EINSUFFBUF) return bbskip();
                if (f.bb && !is_read && (a.form == F_VARD || bb_conflict(f, v, a.elems, r, true))) return bbskip();
                if (rc == NC_NOERR && a.elems.empty()) { /* a zero-length request is not queued: the id returned is NC_REQ_NULL */ }
                else if (rc == NC_NOERR) {
                    if (!is_read) { long long mx = std::min(type_maxval(v.type), mem_maxval(a.memtype)); a.values.resize(a.elems.size()); for (size_t k = 0; k < a.elems.size(); k++) a.values[k] = value_for(opidx, a.vrank >= 0 ? a.vrank : r, (long long)k, mx); }
                    else { a.memtype = native_memtype(v.type); }   // values are only known at completion time: read without conversion
                    a.erange_k = is_read ? -1 : erange_index(f, v, a); if (a.erange_k >= 0) a.values[(size_t)a.erange_k] = 70000 + a.erange_k % 7;
                    MReq q; q.live = true; q.kind = kind; q.var = vi; q.acc = a; q.opidx = opidx; q.nbytes = nbytes; q.abuf_bytes = kind == K_BPUT ? nbytes : 0;
                    if (kind == K_BPUT) rk.abuf_used += nbytes;
                    a.reqslot = (int)rk.reqs.size();
                    if (kind == K_BPUT) rk.abuf_table.push_back({nbytes, a.reqslot}); q.acc.reqslot = a.reqslot; rk.reqs.push_back(q);
                    if (f.bb && !is_read) {   // logged at post time: from now on a flush may put it into the file at any moment before its wait
                        invalidate_racing_reads(m, op.file, vi, r, a.elems);
                        uint8_t me = (uint8_t)(1u << r); long long maxrec = 0;
                        for (auto e : a.elems) { if (v.isrec) { long long rec = e / v.recelems; maxrec = std::max(maxrec, rec + 1); ensure_records(v, rec + 1); } if (e >= 0 && e < (long long)v.cells.size()) { Cell &c = v.cells[(size_t)e]; c.bb |= me; c.bbx |= me; if (c.bbpend < 255) c.bbpend++; } }
                        rk.bb_pending = true; rk.reqs.back().maxrec = maxrec;   // (the record count may or may not include it until its wait: see bb_pending_hi)
                    }
                }
            }
            if (rc == NC_NOERR && !a.elems.empty() && a.erange_k >= 0) rc = NC_ERANGE;   // conversion happens at post time: the post reports NC_ERANGE, the request stays queued
            a.exp_rc = rc; op.exp_rc_rank[r] = rc;
        }
        if (is_read) op.snap = schema_copy(f);
        req_counts(f, op);
        return true;
    }
    case OP_WAIT: case OP_CANCEL: {
        if (!f.open) return skip();
        bool cancel = op.kind == OP_CANCEL;
        if ((int)op.waits.size() != m.nprocs) return skip();
        if (f.bb) for (auto &w : op.waits) if (w.active && (w.mode == 0 || w.mode == 4)) for (auto s2 : w.slots) if (s2 == -2) return skip();
        if (!cancel) { if (f.mode == FM_DEFINE || (op.coll && f.mode != FM_COLL) || (!op.coll && f.mode != FM_INDEP)) return skip(); }
        // resolve which requests complete on each rank
        std::vector<std::vector<int>> done(m.nprocs);
        for (int r = 0; r < m.nprocs; r++) {
            WaitSpec &w = op.waits[r]; MRank &rk = f.ranks[r]; w.exp_status.clear(); w.exp_rc = NC_NOERR;
            if (!w.active) continue;
            if (w.mode == 4) { w.slots.clear(); for (int s2 = 0; s2 < (int)rk.reqs.size(); s2++) if (rk.reqs[s2].live && rk.reqs[s2].kind != K_IGET) w.slots.push_back(s2); for (int s2 = 0; s2 < (int)rk.reqs.size(); s2++) if (rk.reqs[s2].live && rk.reqs[s2].kind == K_IGET) w.slots.push_back(s2); }
            if (w.mode == 0 || w.mode == 4) {
                std::vector<int> seen;
                for (auto &s : w.slots) {
                    if (s >= 0) { if (rk.reqs.empty()) s = -1; else s = s % (int)rk.reqs.size(); }
                    if (s >= 0 && std::find(seen.begin(), seen.end(), s) != seen.end()) s = -1;
                    if (s >= 0) seen.push_back(s);
                    if (s == -2) { w.exp_status.push_back(NC_EINVAL_REQUEST); continue; }
                    w.exp_status.push_back((s >= 0 && rk.reqs[s].live && rk.reqs[s].acc.erange_k >= 0) ? 12346 /* either NC_NOERR or NC_ERANGE */ : NC_NOERR);
                    if (s >= 0 && rk.reqs[s].live) done[r].push_back(s);
                }
                bool bad = false; for (auto st : w.exp_status) if (st == NC_EINVAL_REQUEST) bad = true;
                if (bad) { w.exp_rc = NC_EINVAL_REQUEST; done[r].clear(); w.exp_status.clear(); /* nothing named next to an invalid id is committed; per-entry statuses unspecified */ }
            } else for (int s = 0; s < (int)rk.reqs.size(); s++) if (rk.reqs[s].live && (w.mode == 1 || (w.mode == 2 && rk.reqs[s].kind == K_IGET) || (w.mode == 3 && rk.reqs[s].kind != K_IGET))) done[r].push_back(s);
        }
        if (f.bb && cancel)   // burst buffer: cancelling a put whose log entry may already have been flushed fails with NC_EFLUSHED after the data went to the file (documented issue 2): outside the common fragment.  A put that certainly is still in the log is cancelled cleanly.
            for (int r = 0; r < m.nprocs; r++) for (int s2 : done[r]) if (f.ranks[r].reqs[s2].kind != K_IGET && f.ranks[r].reqs[s2].bb_flushed) return skip();
        std::map<std::pair<int, long long>, int> touched;   // (var, elem) written by a put completing in this op
        if (!cancel) {
            for (int r = 0; r < m.nprocs; r++) for (int s : done[r]) {
                MReq &q = f.ranks[r].reqs[s]; if (q.kind == K_IGET) continue;
                MVar &v = f.vars[q.var]; long long maxrec = 0;
                apply_put(f, v, r, q.acc, q.opidx, op.coll, maxrec);
                if (q.acc.erange_k >= 0 && q.acc.erange_k < (int)q.acc.elems.size()) { long long e2 = q.acc.elems[(size_t)q.acc.erange_k]; if (e2 >= 0 && e2 < (long long)v.cells.size()) v.cells[(size_t)e2].st = CS_UNKNOWN; }
                invalidate_racing_reads(m, op.file, q.var, r, q.acc.elems);
                for (auto e : q.acc.elems) { auto key = std::make_pair(q.var, e); if (touched.count(key) && e < (long long)v.cells.size()) v.cells[(size_t)e].st = CS_UNKNOWN; touched[key] = r; }
                grow_numrecs(f, r, maxrec, op.coll);
                if (f.bb) for (auto e : q.acc.elems) if (e >= 0 && e < (long long)v.cells.size() && v.cells[(size_t)e].bbpend) v.cells[(size_t)e].bbpend--;
            }
            if (f.bb) { if (op.coll) bb_flush_all(f); else for (int r = 0; r < m.nprocs; r++) if (op.waits[r].active) bb_flush(f, r); }   // every wait flushes the caller's whole log
            if (op.coll) sync_numrecs(f);
            for (int r = 0; r < m.nprocs; r++) for (int s : done[r]) {
                MReq &q = f.ranks[r].reqs[s]; if (q.kind != K_IGET) continue;
                MVar &v = f.vars[q.var];
                // expectations live in the posting op's Access (that is what the interpreter checks on completion)
                Access *pa = nullptr; if (m.cur_ops && q.opidx >= 0 && q.opidx < (int)m.cur_ops->size()) pa = &(*m.cur_ops)[q.opidx].acc[r];
                if (!pa) continue;
                expect_get(f, v, r, *pa);
                m.pending_reads.push_back({q.opidx, r, op.file, q.var});
                for (size_t k = 0; k < pa->elems.size(); k++) if (touched.count(std::make_pair(q.var, pa->elems[k]))) pa->estate[k] = 2;
                // elements that another iget completed by the same wait on this rank also reads
                for (int s2 : done[r]) {
                    if (s2 == s) continue; MReq &q2 = f.ranks[r].reqs[s2]; if (q2.kind != K_IGET || q2.var != q.var) continue;
                    std::vector<long long> other(q2.acc.elems); std::sort(other.begin(), other.end());
                    for (size_t k = 0; k < pa->elems.size(); k++) if (std::binary_search(other.begin(), other.end(), pa->elems[k])) { if (m.strict_iget_overlap) { if (pa->estate[k] != 2) pa->estate[k] |= 0x10; } else pa->estate[k] = 2; }
                }
            }
        }
        for (int r = 0; r < m.nprocs; r++) {
            for (int s : done[r]) { MReq &q = f.ranks[r].reqs[s]; if (f.bb && cancel && q.kind != K_IGET) { MVar &cv = f.vars[q.var]; if (cv.isrec && q.maxrec > 0) op.note = "bb-cancel-staged-records"; for (auto e : q.acc.elems) if (e >= 0 && e < (long long)cv.cells.size() && cv.cells[(size_t)e].bbpend) cv.cells[(size_t)e].bbpend--; } if (q.kind == K_BPUT) { f.ranks[r].abuf_used -= q.abuf_bytes; for (auto &e : f.ranks[r].abuf_table) if (e.second == s) e.second = -1; } q.live = false; }
            auto &t = f.ranks[r].abuf_table; while (!t.empty() && t.back().second < 0) t.pop_back();
        }
        req_counts(f, op);
        return true;
    }
    default: break;
    }
    return skip();
}

#include "cdf.hpp"
// the content of a pre-existing file as the independent decoder reads it (C04: expected results come from the specification, not the library)
static bool model_from_image(const std::vector<uint8_t> &bytes, const std::string &path, MFile &out) {
    sim::Inode tmp; tmp.write(0, bytes.data(), bytes.size()); tmp.vis.size = bytes.size(); tmp.vis.exists = true;
    cdf::File d; if (!cdf::decode_header(tmp.vis, d)) return false;
    out = MFile(); out.path = path; out.format = d.version; out.numrecs = d.numrecs; out.fresh = false; out.mode = FM_COLL;
    for (auto &dd : d.dims) { MDim x; x.name = dd.name; x.len = dd.len; out.dims.push_back(x); }
    auto conv_att = [](const cdf::Att &a) { MAtt x; x.name = a.name; x.type = a.type; for (long long i = 0; i < a.nelems; i++) x.v.push_back(cdf::att_int(a, i)); return x; };
    for (auto &a : d.gatts) out.gatts.push_back(conv_att(a));
    for (auto &v : d.vars) {
        MVar x; x.name = v.name; x.type = v.type; for (auto dm : v.dimids) x.dimids.push_back((int)dm); x.isrec = v.isrec; x.shape = v.shape; x.recelems = v.nelems_per_rec; x.fresh = false; x.fill_known = false;
        for (auto &a : v.atts) { x.atts.push_back(conv_att(a)); if (a.name == "_FillValue" && a.nelems == 1) { x.has_fillv = true; x.fillv = cdf::att_int(a, 0); } }
        if (v.nelems_per_rec < 0 || v.nelems_per_rec > (1 << 20) || d.numrecs < 0 || d.numrecs > (1 << 20)) return false;
        long long n = v.isrec ? d.numrecs * v.nelems_per_rec : v.nelems_per_rec; if (n < 0 || n > (1 << 20)) return false;
        x.cells.assign((size_t)n, Cell()); x.nrec_alloc = v.isrec ? d.numrecs : 0;
        for (long long k = 0; k < n; k++) { long long iv; double dv; bool isf; bool in = cdf::read_elem(tmp.vis, d, v, k, iv, dv, isf); if (in && dv == (double)iv && iv >= 0 && iv <= type_maxval(v.type)) { x.cells[(size_t)k].st = CS_VALUE; x.cells[(size_t)k].v = iv; } }
        out.vars.push_back(x);
    }
    return true;
}
void annotate(Model &m, Program &p) {
    int nslots = 1; for (auto &op : p.ops) nslots = std::max(nslots, op.file + 1);
    m.init(p.cfg.sim.nprocs, std::min(nslots, 64));
    auto it = p.cfg.sim.env.find("PNETCDF_RELAX_COORD_BOUND");
    m.strict_coord = (it != p.cfg.sim.env.end() && it->second == "0");
    m.strict_iget_overlap = (p.cfg.flags & 1) != 0;
    { auto sm = p.cfg.sim.env.find("PNETCDF_SAFE_MODE"); m.safe_mode = (sm != p.cfg.sim.env.end() && sm->second != "0"); }
    m.bb_rules = (p.cfg.flags & 4) != 0;
    { auto h = p.cfg.sim.env.find("PNETCDF_HINTS"); m.aggr_env = (h != p.cfg.sim.env.end() && h->second.find("nc_num_aggrs_per_node") != std::string::npos); }
    if (p.cfg.profile != "C19") for (auto &f : p.preload) { MFile mf; if (model_from_image(f.second, f.first, mf)) m.disk[f.first] = mf; }   // (C19 feeds damaged files: no model)
    m.cur_ops = &p.ops;
    for (auto &op : p.ops) model_step(m, op);
    m.cur_ops = nullptr;
}
