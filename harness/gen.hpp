// Model-guided program generator with swarm configuration.
#pragma once
#include "model.hpp"

struct GenParams {
    int min_np = 1, max_np = 4;
    int max_data_ops = 14;
    bool nonblocking = false;      // iput/iget/bput/wait
    bool redef = false;            // redefinition deltas
    bool fill = false;             // fill-mode features
    bool atts = true;              // attributes
    bool meta_heavy = false;       // renames / deletes / data-mode metadata
    bool indep = true;             // independent data mode
    bool reopen = true;
    bool recs = true;              // record variables
    bool all_forms = true;         // varm/varn/vard/flexible forms
    bool hints = false;            // random hints / env
    bool knobs = false;
    bool bb = false;               // burst buffer driver
    bool checkpoint_each = false;  // CHECKPOINT after every op
    bool syncpoint_after_write = true;
    bool multi_file = false;
    int max_dimlen = 6;
    bool utf8_names = false;
    bool align_args = false;       // _enddef with alignment arguments
    bool big = false;              // occasionally larger variables (cross 4 KiB swap threshold)
    bool no_type_conv = false;     // memory type == native type
    bool forced_np = false; int np = 0;
    bool invalid_args = false;     // per-rank invalid arguments in collective data calls (C08)
    bool badids = false;           // calls on ids that are not open (C17)
    bool close_pending = false;    // close with pending nonblocking requests (C17)
    bool fill_rec_split = false;    // ncmpi_fill_var_rec with different record numbers on different ranks (only without safe mode, which rejects it)
    bool erange = false;            // occasionally one out-of-range value in a put (NC_ERANGE is returned, everything else is still transferred)
    bool iget_overlap_strict = false;   // check the overlapped share of overlapping iget requests on 10% of seeds (C02 known finding)
};

Program gen_program(uint64_t seed, const GenParams &gp, const std::string &profile);
// building blocks reused by property-specific generators
void gen_config(sim::Rng &rng, Program &p, const GenParams &gp);
Access gen_region_access(sim::Rng &rng, const MVar &v, long long numrecs, bool is_read, bool allow_extend, const GenParams &gp, int fam = -1);
void gen_partitioned(sim::Rng &rng, const MVar &v, long long numrecs, int nprocs, bool coll, const GenParams &gp, std::vector<Access> &out);
std::string gen_name(sim::Rng &rng, const char *prefix, int idx, bool utf8);
