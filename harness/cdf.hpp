// Independent CDF-1/2/5 codec written from the format specification (BNF in the netCDF user guide / ncmpio_NC.h comments).
// Shares no code with /repo.
#pragma once
#include "sim.hpp"
#include <string>
#include <vector>

namespace cdf {

struct Att { std::string name; int type = 0; long long nelems = 0; std::vector<uint8_t> raw; /* big-endian external bytes, unpadded */ };
struct Dim { std::string name; long long len = 0; };
struct Var { std::string name; std::vector<long long> dimids; std::vector<Att> atts; int type = 0; unsigned long long vsize = 0; long long begin = 0;
             bool isrec = false; long long nelems_per_rec = 1; /* product of non-record dims */ std::vector<long long> shape; };
struct File {
    int version = 0; long long numrecs = 0; bool streaming = false;
    std::vector<Dim> dims; std::vector<Att> gatts; std::vector<Var> vars;
    long long header_len = 0;      // bytes consumed by the header
    long long recsize = 0;         // computed by the spec rule
    int unlimdim = -1;
    std::vector<std::string> problems;   // strictness violations found while decoding
};

int type_size(int nctype);
// Strict decode of the header. Returns false (with problems filled) if the image is not a well-formed classic file.
bool decode_header(const sim::Image &img, File &out);
// Spec-level layout checks on a decoded header: begins increasing in definition order, alignment 4, no overlap, vsize rule, record rule.
void check_layout(const File &f, unsigned long long file_size, std::vector<std::string> &problems);
// element access: numeric value of element k of variable v (k counted record-major: rec * nelems_per_rec + i)
long long elem_offset(const File &f, const Var &v, long long k);
bool read_elem(const sim::Image &img, const File &f, const Var &v, long long k, long long &ival, double &dval, bool &is_float);
long long att_int(const Att &a, long long i, double *dv = nullptr);

// ---- encoder (for C04/C19 seed files): dialect options produce spec-valid files the library itself never writes
struct EncOpts {
    long long header_pad = 0;      // extra free space between header and first variable
    std::vector<long long> gaps;   // extra gap (bytes, multiple of 4) before each variable's data
    bool stale_vsize = false;      // write a wrong (but spec-tolerated) vsize
    int absent_style = 0;          // 0: ZERO ZERO, 1: TAG ZERO for empty lists
    uint8_t pad_byte = 0;          // bytes in header free space (not name padding)
    uint64_t junk_seed = 0;        // if nonzero, fill header free space with pseudo-random bytes
};
// f.vars[].begin/vsize are computed by the encoder; data[i] holds the external big-endian bytes of variable i (fixed: whole; record: rec-major per var)
std::vector<uint8_t> encode(File &f, const std::vector<std::vector<uint8_t>> &data, const EncOpts &o);
void put_be(std::vector<uint8_t> &b, unsigned long long v, int nbytes);

} // namespace cdf
