// Uniform dispatch onto the typed and flexible ncmpi_* data APIs.
#include "api.hpp"

#define TYPES(X) X(MT_TEXT, text, char) X(MT_SCHAR, schar, signed char) X(MT_UCHAR, uchar, unsigned char) X(MT_SHORT, short, short) \
    X(MT_USHORT, ushort, unsigned short) X(MT_INT, int, int) X(MT_UINT, uint, unsigned int) X(MT_LONG, long, long) X(MT_FLOAT, float, float) \
    X(MT_DOUBLE, double, double) X(MT_LONGLONG, longlong, long long) X(MT_ULONGLONG, ulonglong, unsigned long long)

int mt_size(int mt) {
    switch (mt) { case MT_TEXT: case MT_SCHAR: case MT_UCHAR: return 1; case MT_SHORT: case MT_USHORT: return 2; case MT_INT: case MT_UINT: case MT_FLOAT: return 4; default: return 8; }
}
MPI_Datatype mt_mpi(int mt) {
    static const MPI_Datatype t[] = {MPI_CHAR, MPI_SIGNED_CHAR, MPI_UNSIGNED_CHAR, MPI_SHORT, MPI_UNSIGNED_SHORT, MPI_INT, MPI_UNSIGNED, MPI_LONG, MPI_FLOAT, MPI_DOUBLE, MPI_LONG_LONG_INT, MPI_UNSIGNED_LONG_LONG};
    return t[mt];
}
const char *mt_name(int mt) { static const char *n[] = {"text", "schar", "uchar", "short", "ushort", "int", "uint", "long", "float", "double", "longlong", "ulonglong"}; return n[mt]; }

// ---- typed
#define PUTLIKE(KIND, pfx, CONSTQ)                                                                                                              \
    static int typed_##pfx(int form, bool coll, int ncid, int varid, const MPI_Offset *s, const MPI_Offset *c, const MPI_Offset *st,             \
                           const MPI_Offset *im, void *buf, int mt, int *req) {                                                                   \
        (void)req;                                                                                                                                 \
        switch (mt) {                                                                                                                              \
            TYPES(KIND)                                                                                                                            \
        }                                                                                                                                          \
        return NC_EBADTYPE;                                                                                                                        \
    }

#define BLK(pfx, n, ct, CQ)                                                                                                                    \
    switch (form) {                                                                                                                              \
    case F_VAR1: return coll ? ncmpi_##pfx##_var1_##n##_all(ncid, varid, s, (CQ ct *)buf) : ncmpi_##pfx##_var1_##n(ncid, varid, s, (CQ ct *)buf); \
    case F_VAR: return coll ? ncmpi_##pfx##_var_##n##_all(ncid, varid, (CQ ct *)buf) : ncmpi_##pfx##_var_##n(ncid, varid, (CQ ct *)buf);         \
    case F_VARA: return coll ? ncmpi_##pfx##_vara_##n##_all(ncid, varid, s, c, (CQ ct *)buf) : ncmpi_##pfx##_vara_##n(ncid, varid, s, c, (CQ ct *)buf); \
    case F_VARS: return coll ? ncmpi_##pfx##_vars_##n##_all(ncid, varid, s, c, st, (CQ ct *)buf) : ncmpi_##pfx##_vars_##n(ncid, varid, s, c, st, (CQ ct *)buf); \
    case F_VARM: return coll ? ncmpi_##pfx##_varm_##n##_all(ncid, varid, s, c, st, im, (CQ ct *)buf) : ncmpi_##pfx##_varm_##n(ncid, varid, s, c, st, im, (CQ ct *)buf); \
    default: return NC_EINVAL;                                                                                                                   \
    }
#define XPUT(e, n, ct) case e: BLK(put, n, ct, const)
#define XGET(e, n, ct) case e: BLK(get, n, ct, )
PUTLIKE(XPUT, put, const)
PUTLIKE(XGET, get, )

#define NBLK(pfx, n, ct, CQ)                                                                  \
    switch (form) {                                                                            \
    case F_VAR1: return ncmpi_##pfx##_var1_##n(ncid, varid, s, (CQ ct *)buf, req);             \
    case F_VAR: return ncmpi_##pfx##_var_##n(ncid, varid, (CQ ct *)buf, req);                  \
    case F_VARA: return ncmpi_##pfx##_vara_##n(ncid, varid, s, c, (CQ ct *)buf, req);          \
    case F_VARS: return ncmpi_##pfx##_vars_##n(ncid, varid, s, c, st, (CQ ct *)buf, req);      \
    case F_VARM: return ncmpi_##pfx##_varm_##n(ncid, varid, s, c, st, im, (CQ ct *)buf, req);  \
    default: return NC_EINVAL;                                                                 \
    }
#define XIPUT(e, n, ct) case e: NBLK(iput, n, ct, const)
#define XIGET(e, n, ct) case e: NBLK(iget, n, ct, )
#define XBPUT(e, n, ct) case e: NBLK(bput, n, ct, const)
PUTLIKE(XIPUT, iput, const)
PUTLIKE(XIGET, iget, )
PUTLIKE(XBPUT, bput, const)

int api_typed(int kind, int form, bool coll, int ncid, int varid, const MPI_Offset *s, const MPI_Offset *c, const MPI_Offset *st, const MPI_Offset *im,
              void *buf, int mt, int *req) {
    switch (kind) {
    case K_PUT: return typed_put(form, coll, ncid, varid, s, c, st, im, buf, mt, req);
    case K_GET: return typed_get(form, coll, ncid, varid, s, c, st, im, buf, mt, req);
    case K_IPUT: return typed_iput(form, coll, ncid, varid, s, c, st, im, buf, mt, req);
    case K_IGET: return typed_iget(form, coll, ncid, varid, s, c, st, im, buf, mt, req);
    case K_BPUT: return typed_bput(form, coll, ncid, varid, s, c, st, im, buf, mt, req);
    }
    return NC_EINVAL;
}

// ---- flexible
int api_flex(int kind, int form, bool coll, int ncid, int varid, const MPI_Offset *s, const MPI_Offset *c, const MPI_Offset *st, const MPI_Offset *im,
             void *buf, MPI_Offset bufcount, MPI_Datatype bt, int *req) {
#define FB(pfx)                                                                                                                                  \
    switch (form) {                                                                                                                              \
    case F_VAR1: return coll ? ncmpi_##pfx##_var1_all(ncid, varid, s, buf, bufcount, bt) : ncmpi_##pfx##_var1(ncid, varid, s, buf, bufcount, bt); \
    case F_VAR: return coll ? ncmpi_##pfx##_var_all(ncid, varid, buf, bufcount, bt) : ncmpi_##pfx##_var(ncid, varid, buf, bufcount, bt);         \
    case F_VARA: return coll ? ncmpi_##pfx##_vara_all(ncid, varid, s, c, buf, bufcount, bt) : ncmpi_##pfx##_vara(ncid, varid, s, c, buf, bufcount, bt); \
    case F_VARS: return coll ? ncmpi_##pfx##_vars_all(ncid, varid, s, c, st, buf, bufcount, bt) : ncmpi_##pfx##_vars(ncid, varid, s, c, st, buf, bufcount, bt); \
    case F_VARM: return coll ? ncmpi_##pfx##_varm_all(ncid, varid, s, c, st, im, buf, bufcount, bt) : ncmpi_##pfx##_varm(ncid, varid, s, c, st, im, buf, bufcount, bt); \
    default: return NC_EINVAL;                                                                                                                   \
    }
#define FN(pfx)                                                                                          \
    switch (form) {                                                                                       \
    case F_VAR1: return ncmpi_##pfx##_var1(ncid, varid, s, buf, bufcount, bt, req);                       \
    case F_VAR: return ncmpi_##pfx##_var(ncid, varid, buf, bufcount, bt, req);                            \
    case F_VARA: return ncmpi_##pfx##_vara(ncid, varid, s, c, buf, bufcount, bt, req);                    \
    case F_VARS: return ncmpi_##pfx##_vars(ncid, varid, s, c, st, buf, bufcount, bt, req);                \
    case F_VARM: return ncmpi_##pfx##_varm(ncid, varid, s, c, st, im, buf, bufcount, bt, req);            \
    default: return NC_EINVAL;                                                                            \
    }
    switch (kind) {
    case K_PUT: FB(put)
    case K_GET: FB(get)
    case K_IPUT: FN(iput)
    case K_IGET: FN(iget)
    case K_BPUT: FN(bput)
    }
    return NC_EINVAL;
}

// ---- varn
int api_varn_typed(int kind, bool coll, int ncid, int varid, int num, MPI_Offset *const *starts, MPI_Offset *const *counts, void *buf, int mt, int *req) {
    switch (mt) {
#define XV(e, n, ct)                                                                                                                                    \
    case e:                                                                                                                                               \
        switch (kind) {                                                                                                                                   \
        case K_PUT: return coll ? ncmpi_put_varn_##n##_all(ncid, varid, num, starts, counts, (const ct *)buf) : ncmpi_put_varn_##n(ncid, varid, num, starts, counts, (const ct *)buf); \
        case K_GET: return coll ? ncmpi_get_varn_##n##_all(ncid, varid, num, starts, counts, (ct *)buf) : ncmpi_get_varn_##n(ncid, varid, num, starts, counts, (ct *)buf); \
        case K_IPUT: return ncmpi_iput_varn_##n(ncid, varid, num, starts, counts, (const ct *)buf, req);                                                 \
        case K_IGET: return ncmpi_iget_varn_##n(ncid, varid, num, starts, counts, (ct *)buf, req);                                                       \
        case K_BPUT: return ncmpi_bput_varn_##n(ncid, varid, num, starts, counts, (const ct *)buf, req);                                                 \
        }                                                                                                                                                 \
        break;
        TYPES(XV)
    }
    return NC_EINVAL;
}
int api_varn_flex(int kind, bool coll, int ncid, int varid, int num, MPI_Offset *const *starts, MPI_Offset *const *counts, void *buf, MPI_Offset bufcount,
                  MPI_Datatype bt, int *req) {
    switch (kind) {
    case K_PUT: return coll ? ncmpi_put_varn_all(ncid, varid, num, starts, counts, buf, bufcount, bt) : ncmpi_put_varn(ncid, varid, num, starts, counts, buf, bufcount, bt);
    case K_GET: return coll ? ncmpi_get_varn_all(ncid, varid, num, starts, counts, buf, bufcount, bt) : ncmpi_get_varn(ncid, varid, num, starts, counts, buf, bufcount, bt);
    case K_IPUT: return ncmpi_iput_varn(ncid, varid, num, starts, counts, buf, bufcount, bt, req);
    case K_IGET: return ncmpi_iget_varn(ncid, varid, num, starts, counts, buf, bufcount, bt, req);
    case K_BPUT: return ncmpi_bput_varn(ncid, varid, num, starts, counts, buf, bufcount, bt, req);
    }
    return NC_EINVAL;
}
int api_vard(int kind, bool coll, int ncid, int varid, MPI_Datatype filetype, void *buf, MPI_Offset bufcount, MPI_Datatype bt) {
    if (kind == K_PUT) return coll ? ncmpi_put_vard_all(ncid, varid, filetype, buf, bufcount, bt) : ncmpi_put_vard(ncid, varid, filetype, buf, bufcount, bt);
    return coll ? ncmpi_get_vard_all(ncid, varid, filetype, buf, bufcount, bt) : ncmpi_get_vard(ncid, varid, filetype, buf, bufcount, bt);
}

// ---- multi-variable
int api_m_typed(int kind, int form, bool coll, int ncid, int nvars, int *varids, MPI_Offset *const *s, MPI_Offset *const *c, MPI_Offset *const *st, MPI_Offset *const *im, void **bufs, int mt) {
    switch (mt) {
#define XM(e, n, ct)                                                                                                                                      \
    case e:                                                                                                                                                 \
        if (kind == K_PUT) switch (form) {                                                                                                                  \
            case F_VARA: return coll ? ncmpi_mput_vara_##n##_all(ncid, nvars, varids, s, c, (ct *const *)bufs) : ncmpi_mput_vara_##n(ncid, nvars, varids, s, c, (ct *const *)bufs); \
            case F_VARS: return coll ? ncmpi_mput_vars_##n##_all(ncid, nvars, varids, s, c, st, (ct *const *)bufs) : ncmpi_mput_vars_##n(ncid, nvars, varids, s, c, st, (ct *const *)bufs); \
            case F_VARM: return coll ? ncmpi_mput_varm_##n##_all(ncid, nvars, varids, s, c, st, im, (ct *const *)bufs) : ncmpi_mput_varm_##n(ncid, nvars, varids, s, c, st, im, (ct *const *)bufs); \
            default: return NC_EINVAL; }                                                                                                                    \
        else switch (form) {                                                                                                                                \
            case F_VARA: return coll ? ncmpi_mget_vara_##n##_all(ncid, nvars, varids, s, c, (ct **)bufs) : ncmpi_mget_vara_##n(ncid, nvars, varids, s, c, (ct **)bufs); \
            case F_VARS: return coll ? ncmpi_mget_vars_##n##_all(ncid, nvars, varids, s, c, st, (ct **)bufs) : ncmpi_mget_vars_##n(ncid, nvars, varids, s, c, st, (ct **)bufs); \
            case F_VARM: return coll ? ncmpi_mget_varm_##n##_all(ncid, nvars, varids, s, c, st, im, (ct **)bufs) : ncmpi_mget_varm_##n(ncid, nvars, varids, s, c, st, im, (ct **)bufs); \
            default: return NC_EINVAL; }
        TYPES(XM)
    }
    return NC_EINVAL;
}
int api_m_flex(int kind, int form, bool coll, int ncid, int nvars, int *varids, MPI_Offset *const *s, MPI_Offset *const *c, MPI_Offset *const *st, MPI_Offset *const *im, void **bufs,
               const MPI_Offset *bufcounts, const MPI_Datatype *bts) {
    if (kind == K_PUT) switch (form) {
        case F_VARA: return coll ? ncmpi_mput_vara_all(ncid, nvars, varids, s, c, bufs, bufcounts, bts) : ncmpi_mput_vara(ncid, nvars, varids, s, c, bufs, bufcounts, bts);
        case F_VARS: return coll ? ncmpi_mput_vars_all(ncid, nvars, varids, s, c, st, bufs, bufcounts, bts) : ncmpi_mput_vars(ncid, nvars, varids, s, c, st, bufs, bufcounts, bts);
        case F_VARM: return coll ? ncmpi_mput_varm_all(ncid, nvars, varids, s, c, st, im, bufs, bufcounts, bts) : ncmpi_mput_varm(ncid, nvars, varids, s, c, st, im, bufs, bufcounts, bts);
        default: return NC_EINVAL; }
    switch (form) {
        case F_VARA: return coll ? ncmpi_mget_vara_all(ncid, nvars, varids, s, c, bufs, bufcounts, bts) : ncmpi_mget_vara(ncid, nvars, varids, s, c, bufs, bufcounts, bts);
        case F_VARS: return coll ? ncmpi_mget_vars_all(ncid, nvars, varids, s, c, st, bufs, bufcounts, bts) : ncmpi_mget_vars(ncid, nvars, varids, s, c, st, bufs, bufcounts, bts);
        case F_VARM: return coll ? ncmpi_mget_varm_all(ncid, nvars, varids, s, c, st, im, bufs, bufcounts, bts) : ncmpi_mget_varm(ncid, nvars, varids, s, c, st, im, bufs, bufcounts, bts);
        default: return NC_EINVAL; }
}

// ---- attributes
int api_put_att(int ncid, int varid, const char *name, int xtype, MPI_Offset n, const void *buf, int mt) {
    switch (mt) {
    case MT_TEXT: return ncmpi_put_att_text(ncid, varid, name, n, (const char *)buf);
#define XA(e, nm, ct) case e: return ncmpi_put_att_##nm(ncid, varid, name, (nc_type)xtype, n, (const ct *)buf);
    XA(MT_SCHAR, schar, signed char) XA(MT_UCHAR, uchar, unsigned char) XA(MT_SHORT, short, short) XA(MT_USHORT, ushort, unsigned short) XA(MT_INT, int, int)
    XA(MT_UINT, uint, unsigned int) XA(MT_LONG, long, long) XA(MT_FLOAT, float, float) XA(MT_DOUBLE, double, double) XA(MT_LONGLONG, longlong, long long)
    XA(MT_ULONGLONG, ulonglong, unsigned long long)
    }
    return NC_EINVAL;
}
int api_get_att(int ncid, int varid, const char *name, void *buf, int mt) {
    switch (mt) {
#define XG(e, nm, ct) case e: return ncmpi_get_att_##nm(ncid, varid, name, (ct *)buf);
        TYPES(XG)
    }
    return NC_EINVAL;
}
