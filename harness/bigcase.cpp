// C18: one self-contained case = a set of definitions with sizes around the format limits plus a few accesses at huge offsets.
// The whole case is one op (OP_BIGCASE) executed by every rank; the reference model (a cell per element) is not used: the oracle is the
// rule table below (written from the property statement / the classic format limits) and the raw sparse image of the simulated file system.
#include "bigcase.hpp"
#include "cdf.hpp"
#include "api.hpp"
#include <cstring>
#include <list>

typedef __int128 i128;

BigCase bigcase_decode(const std::vector<long long> &v) {
    BigCase c; size_t p = 0; auto nx = [&]() -> long long { return p < v.size() ? v[p++] : 0; };
    c.format = (int)nx(); int nd = (int)nx(); for (int i = 0; i < nd; i++) c.dimlen.push_back(nx());
    int nv = (int)nx(); for (int i = 0; i < nv; i++) { BigCase::Var x; x.type = (int)nx(); int k = (int)nx(); for (int j = 0; j < k; j++) x.dimids.push_back((int)nx()); c.vars.push_back(x); }
    int na = (int)nx(); for (int i = 0; i < na; i++) { BigCase::Acc a; a.var = (int)nx(); a.mode = (int)nx(); a.writer = (int)nx(); int k = (int)nx(); for (int j = 0; j < k; j++) a.start.push_back(nx()); for (int j = 0; j < k; j++) a.count.push_back(nx()); for (int j = 0; j < k; j++) a.stride.push_back(nx()); c.acc.push_back(a); }
    c.split = (int)nx(); c.aggr = (int)nx();
    return c;
}
std::vector<long long> bigcase_encode(const BigCase &c) {
    std::vector<long long> v; v.push_back(c.format); v.push_back((long long)c.dimlen.size()); for (auto d : c.dimlen) v.push_back(d);
    v.push_back((long long)c.vars.size()); for (auto &x : c.vars) { v.push_back(x.type); v.push_back((long long)x.dimids.size()); for (auto d : x.dimids) v.push_back(d); }
    v.push_back((long long)c.acc.size()); for (auto &a : c.acc) { v.push_back(a.var); v.push_back(a.mode); v.push_back(a.writer); v.push_back((long long)a.start.size()); for (auto x : a.start) v.push_back(x); for (auto x : a.count) v.push_back(x); for (auto x : a.stride) v.push_back(x); }
    v.push_back(c.split); v.push_back(c.aggr);
    return v;
}
std::string bigcase_text(const BigCase &c) {
    std::string s = "CDF-" + std::to_string(c.format) + " dims=["; for (size_t i = 0; i < c.dimlen.size(); i++) s += (i ? "," : "") + (c.dimlen[i] == 0 ? std::string("UNLIMITED") : std::to_string(c.dimlen[i]));
    s += "] vars=["; for (size_t i = 0; i < c.vars.size(); i++) { s += (i ? " " : "") + std::string(nc_type_name(c.vars[i].type)) + "("; for (size_t k = 0; k < c.vars[i].dimids.size(); k++) s += (k ? "," : "") + std::to_string(c.vars[i].dimids[k]); s += ")"; }
    s += "] accesses=" + std::to_string(c.acc.size()); if (c.split) s += " redef-after-var#" + std::to_string(c.split); if (c.aggr) s += " aggrs-per-node=" + std::to_string(c.aggr);
    return s;
}

static int xsz_of(int t) { return cdf::type_size(t); }
static void write_mem(void *p, int mt, long long v) {
    switch (mt) {
    case MT_TEXT: *(char *)p = (char)v; break; case MT_SCHAR: *(signed char *)p = (signed char)v; break; case MT_UCHAR: *(unsigned char *)p = (unsigned char)v; break;
    case MT_SHORT: *(short *)p = (short)v; break; case MT_USHORT: *(unsigned short *)p = (unsigned short)v; break; case MT_INT: *(int *)p = (int)v; break;
    case MT_UINT: *(unsigned *)p = (unsigned)v; break; case MT_LONG: *(long *)p = (long)v; break; case MT_FLOAT: *(float *)p = (float)v; break;
    case MT_DOUBLE: *(double *)p = (double)v; break; case MT_LONGLONG: *(long long *)p = v; break; case MT_ULONGLONG: *(unsigned long long *)p = (unsigned long long)v; break;
    }
}
static bool read_mem(const void *p, int mt, long long &v) {
    switch (mt) {
    case MT_TEXT: v = (unsigned char)*(const char *)p; return true; case MT_SCHAR: v = *(const signed char *)p; return true; case MT_UCHAR: v = *(const unsigned char *)p; return true;
    case MT_SHORT: v = *(const short *)p; return true; case MT_USHORT: v = *(const unsigned short *)p; return true; case MT_INT: v = *(const int *)p; return true;
    case MT_UINT: v = *(const unsigned *)p; return true; case MT_LONG: v = *(const long *)p; return true;
    case MT_FLOAT: v = (long long)*(const float *)p; return true; case MT_DOUBLE: v = (long long)*(const double *)p; return true;
    case MT_LONGLONG: v = *(const long long *)p; return true; case MT_ULONGLONG: v = (long long)*(const unsigned long long *)p; return true;
    }
    v = 0; return false;
}

// ---- rule table (independent of /repo): expected outcome of the definitions
// returns 0 = must succeed, 1 = must fail with NC_EVARSIZE, 2 = either (CDF-1 offset band too close to call without knowing the header alignment)
int bigcase_expect_enddef(const BigCase &c, std::string &why) {
    const i128 T = c.format == 5 ? (((i128)1 << 63) - 1 - 3) : c.format == 2 ? (((i128)1 << 32) - 1 - 3) : (((i128)1 << 31) - 1 - 3);
    int unlim = -1; for (size_t i = 0; i < c.dimlen.size(); i++) if (c.dimlen[i] == 0) unlim = (int)i;
    struct VI { bool rec; i128 bytes; bool large; };
    std::vector<VI> vi;
    for (auto &v : c.vars) { VI x; x.rec = !v.dimids.empty() && v.dimids[0] == unlim; x.bytes = xsz_of(v.type); for (size_t k = x.rec ? 1 : 0; k < v.dimids.size(); k++) { x.bytes *= (i128)c.dimlen[v.dimids[k]]; if (x.bytes > ((i128)1 << 100)) x.bytes = (i128)1 << 100; } x.large = x.bytes > T; vi.push_back(x); }
    if (c.vars.empty()) return 0;
    int nlf = 0, nlr = 0, lastfix = -1, lastrec = -1, nrec = 0;
    for (size_t i = 0; i < vi.size(); i++) { if (vi[i].rec) { nrec++; lastrec = (int)i; if (vi[i].large) nlr++; } else { lastfix = (int)i; if (vi[i].large) nlf++; } }
    if (c.format == 5) {
        if (nlf + nlr) { why = "a variable (or one record of it) exceeds 2^63-4 bytes"; return 1; }
        // every begin offset (and the end of the fixed-size section / one record) must be a non-negative 64-bit integer
        i128 lo = 32, hi = 4096; const i128 M = ((i128)1 << 63) - 1; bool must = false, may = false;
        auto pass5 = [&](bool recpass) { for (size_t i = 0; i < vi.size(); i++) { if (vi[i].rec != recpass) continue; i128 sz = (vi[i].bytes + 3) / 4 * 4; lo += sz; hi += sz + 8; if (lo > M) must = true; if (hi > M) may = true; } };   // every byte of the fixed-size section and of the first record must have a file offset representable in 63 bits
        pass5(false); pass5(true);
        if (must) { why = "the fixed-size section plus one record does not fit below file offset 2^63"; return 1; }
        return may ? 2 : 0;
    }
    if (nlf > 1) { why = "more than one fixed-size variable exceeds the format's size limit"; return 1; }
    if (nlf == 1 && !vi[lastfix].large) { why = "the oversized fixed-size variable is not the last fixed-size variable"; return 1; }
    if (nlf == 1 && nrec > 0) { why = "an oversized fixed-size variable is followed by record variables"; return 1; }
    if (nlr > 1) { why = "more than one record variable exceeds the per-record size limit"; return 1; }
    if (nlr == 1 && !vi[lastrec].large) { why = "the oversized record variable is not the last record variable"; return 1; }
    if (c.format == 1) {
        // offsets must stay below 2^31: lower and upper estimate of every begin (header between 32 bytes and 2 KiB incl. default 512-byte alignment)
        i128 lo = 32, hi = 2048; bool must = false, may = false;
        auto pass = [&](bool recpass) { for (size_t i = 0; i < vi.size(); i++) { if (vi[i].rec != recpass) continue; if (lo > (((i128)1 << 31) - 1)) must = true; if (hi > (((i128)1 << 31) - 1)) may = true; i128 sz = (vi[i].bytes + 3) / 4 * 4; lo += sz; hi += sz + 8; } };
        pass(false); pass(true);
        if (must) { why = "a variable would begin at or beyond 2^31 in a CDF-1 file"; return 1; }
        if (may) return 2;
    }
    return 0;
}

static void enc_be(uint8_t *o, int type, long long v) {
    int n = xsz_of(type);
    if (type == NC_FLOAT) { float f = (float)v; uint32_t u; memcpy(&u, &f, 4); for (int i = 0; i < 4; i++) o[i] = (uint8_t)(u >> (8 * (3 - i))); return; }
    if (type == NC_DOUBLE) { double d = (double)v; uint64_t u; memcpy(&u, &d, 8); for (int i = 0; i < 8; i++) o[i] = (uint8_t)(u >> (8 * (7 - i))); return; }
    for (int i = 0; i < n; i++) o[i] = (uint8_t)((unsigned long long)v >> (8 * (n - 1 - i)));
}

void run_bigcase(const Op &op, int rank, int nprocs, const std::function<void(const char *, const std::string &)> &fail) {
    BigCase c = bigcase_decode(op.att.v);
    const char *path = "/sim/big.nc";
    int cmode = NC_CLOBBER | (c.format == 2 ? NC_64BIT_OFFSET : c.format == 5 ? NC_64BIT_DATA : 0);
    int ncid = -1; sim::set_in_lib(true);
    MPI_Info info = MPI_INFO_NULL; if (c.aggr > 0) { MPI_Info_create(&info); MPI_Info_set(info, "nc_num_aggrs_per_node", std::to_string(c.aggr).c_str()); }
    int rc = ncmpi_create(MPI_COMM_WORLD, path, cmode, info, &ncid);
    if (info != MPI_INFO_NULL) MPI_Info_free(&info);
    sim::set_in_lib(false);
    if (rc != NC_NOERR) { fail("big-create", "ncmpi_create failed: " + std::string(ncmpi_strerrno(rc))); return; }
    auto lib = [&](const std::function<int()> &f) { sim::set_in_lib(true); int x = f(); sim::set_in_lib(false); return x; };
    auto finish = [&]() { lib([&] { return ncmpi_close(ncid); }); };
    // ---- dimensions: limits per format at definition
    std::vector<int> dimid(c.dimlen.size(), -1); bool dims_ok = true;
    for (size_t i = 0; i < c.dimlen.size(); i++) {
        long long L = c.dimlen[i]; std::string nm = "d" + std::to_string(i);
        bool must_fail = L < 0 || (c.format != 5 && L > 2147483647LL);
        rc = lib([&] { return ncmpi_def_dim(ncid, nm.c_str(), L == 0 ? NC_UNLIMITED : (MPI_Offset)L, &dimid[i]); });
        if (must_fail && rc != NC_EDIMSIZE) fail("big-dimsize", "def_dim length " + std::to_string(L) + " in a CDF-" + std::to_string(c.format) + " file returned " + ncmpi_strerrno(rc) + ", expected NC_EDIMSIZE");
        if (!must_fail && rc != NC_NOERR) fail("big-dimsize", "def_dim length " + std::to_string(L) + " in a CDF-" + std::to_string(c.format) + " file was rejected with " + ncmpi_strerrno(rc));
        if (rc != NC_NOERR) dims_ok = false;
    }
    if (!dims_ok) { lib([&] { return ncmpi_abort(ncid); }); return; }
    std::vector<int> varid(c.vars.size(), -1);
    auto define = [&](size_t from, size_t to, const BigCase &whole) -> bool {
        for (size_t i = from; i < to; i++) {
            std::vector<int> ids; for (auto d : c.vars[i].dimids) ids.push_back(dimid[d]);
            std::string nm = "v" + std::to_string(i);
            rc = lib([&] { return ncmpi_def_var(ncid, nm.c_str(), (nc_type)c.vars[i].type, (int)ids.size(), ids.data(), &varid[i]); });
            if (rc != NC_NOERR) {
                std::string w2; if (!(rc == NC_EVARSIZE && bigcase_expect_enddef(whole, w2) == 1)) fail("big-defvar", "def_var " + nm + " failed: " + ncmpi_strerrno(rc));   // rejecting an impossible size already at def_var is as good as at enddef
                lib([&] { return ncmpi_abort(ncid); }); return false;
            }
        }
        return true;
    };
    auto leave_define = [&](const BigCase &defs, const char *when) -> bool {
        std::string why; int expect = bigcase_expect_enddef(defs, why);
        rc = lib([&] { return ncmpi_enddef(ncid); });
        if (expect == 1 && rc != NC_EVARSIZE) fail("big-enddef", std::string(when) + "ncmpi_enddef returned " + std::string(ncmpi_strerrno(rc)) + " but the definitions break the size rules of CDF-" + std::to_string(c.format) + " (" + why + "): expected NC_EVARSIZE");
        if (expect == 0 && rc != NC_NOERR) fail("big-enddef", std::string(when) + "ncmpi_enddef rejected definitions that satisfy the size rules of CDF-" + std::to_string(c.format) + " with " + ncmpi_strerrno(rc));
        if (expect == 2 && rc != NC_NOERR && rc != NC_EVARSIZE) fail("big-enddef", std::string(when) + "ncmpi_enddef returned " + std::string(ncmpi_strerrno(rc)));
        if (rc != NC_NOERR) { lib([&] { return ncmpi_abort(ncid); }); return false; }
        return true;
    };
    size_t first = (c.split > 0 && (size_t)c.split < c.vars.size()) ? (size_t)c.split : c.vars.size();
    if (first < c.vars.size()) {
        // two define-mode sessions: the size rules are a property of the whole variable list, whichever session a variable was defined in
        BigCase pre = c; pre.vars.resize(first); pre.acc.clear();
        if (!define(0, first, pre)) return;
        if (!leave_define(pre, "(first session) ")) return;
        rc = lib([&] { return ncmpi_redef(ncid); });
        if (rc != NC_NOERR) { fail("big-redef", "ncmpi_redef failed: " + std::string(ncmpi_strerrno(rc))); finish(); return; }
        if (!define(first, c.vars.size(), c)) return;
        if (!leave_define(c, "(after redef) ")) return;
    } else {
        if (!define(0, c.vars.size(), c)) return;
        if (!leave_define(c, "")) return;
    }
    // ---- header on the simulated disk: strict decode, layout rules (order, overlap, vsize saturation), CDF-1 offsets
    MPI_Barrier(MPI_COMM_WORLD);
    cdf::File d; auto ino = sim::g->fs.lookup(path);
    if (!ino || !cdf::decode_header(ino->vis, d)) { std::string s; for (auto &p : d.problems) s += p + "; "; fail("big-header", "the header of the accepted definitions does not decode strictly: " + s); finish(); return; }
    if (rank == 0) {
        std::vector<std::string> pr; cdf::check_layout(d, ino->vis.size, pr); if (!pr.empty()) { std::string s; for (auto &p : pr) s += p + "; "; fail("big-layout", s); }
        if (d.vars.size() != c.vars.size()) fail("big-header", "variable count in the header differs");
        if (c.format == 1) for (auto &v : d.vars) if (v.begin > 2147483647LL) fail("big-layout", "CDF-1 variable '" + v.name + "' begins at " + std::to_string(v.begin) + " >= 2^31");
        for (size_t i = 0; i < d.vars.size() && i < c.vars.size(); i++) { MPI_Offset off = -1; ncmpi_inq_varoffset(ncid, varid[i], &off); if (off != d.vars[i].begin) fail("big-layout", "ncmpi_inq_varoffset(v" + std::to_string(i) + ") = " + std::to_string((long long)off) + " but the header says " + std::to_string(d.vars[i].begin)); }
    }
    MPI_Barrier(MPI_COMM_WORLD);
    // ---- accesses on both sides of 2^31 / 2^32
    int unlim = -1; for (size_t i = 0; i < c.dimlen.size(); i++) if (c.dimlen[i] == 0) unlim = (int)i;
    long long tag = 1;
    i128 recsize = 0; { int nrv = 0; i128 only = 0; for (auto &x : c.vars) { bool xr = !x.dimids.empty() && x.dimids[0] == unlim; if (!xr) continue; i128 b = xsz_of(x.type); for (size_t k = 1; k < x.dimids.size(); k++) b *= (i128)c.dimlen[x.dimids[k]]; nrv++; only = b; recsize += (b + 3) / 4 * 4; } if (nrv == 1) recsize = only; }   // record size by the format rule, exact arithmetic
    struct Prep { size_t ai = 0; bool ok = false, iw = false, strided = false; long long n = 0; int type = 0, xs = 0, mt = 0, ms = 0, form = 0, req = NC_REQ_NULL; std::vector<i128> offs; std::vector<long long> vals; std::vector<uint8_t> wbuf; };
    auto prep = [&](size_t ai) -> Prep {
        Prep P; P.ai = ai; const BigCase::Acc &a = c.acc[ai]; if (a.var < 0 || a.var >= (int)c.vars.size()) return P;
        const BigCase::Var &v = c.vars[a.var]; const cdf::Var &dv = d.vars[a.var]; size_t nd = v.dimids.size(); if (a.start.size() != nd) return P;
        bool isrec = nd > 0 && v.dimids[0] == unlim; P.type = v.type; P.xs = xsz_of(P.type);
        long long n = 1; for (auto x : a.count) n *= x; if (n <= 0 || n > 64) return P;
        P.n = n; P.strided = a.mode == 2;
        // element list (row-major over count) -> file offset by the format rule, from the independently decoded header
        std::vector<long long> idx(nd, 0);
        for (long long e = 0; e < n; e++) {
            i128 lin = 0; long long rec = 0;
            for (size_t k = 0; k < nd; k++) { long long pos = a.start[k] + idx[k] * (P.strided ? a.stride[k] : 1); if (isrec && k == 0) { rec = pos; continue; } lin = lin * (i128)c.dimlen[v.dimids[k]] + pos; }
            P.offs.push_back((i128)dv.begin + (isrec ? (i128)rec * recsize : 0) + lin * P.xs);
            for (int k = (int)nd - 1; k >= 0; k--) { if (++idx[k] < a.count[k]) break; idx[k] = 0; }
        }
        for (auto o : P.offs) if (o > ((i128)1 << 62)) return P;
        P.mt = native_memtype(P.type); P.ms = mt_size(P.mt);
        P.wbuf.resize((size_t)n * P.ms); P.vals.resize((size_t)n);
        for (long long e = 0; e < n; e++) { P.vals[e] = (tag * 7 + e * 3 + (long long)ai) % 100 + 1; write_mem(P.wbuf.data() + e * P.ms, P.mt, P.vals[e]); } tag++;
        P.iw = (rank == a.writer % nprocs); P.form = P.strided ? F_VARS : F_VARA; P.ok = true;
        return P;
    };
    // after the data has been made visible: rank 0 looks at the raw image, then every rank reads the access back with a blocking collective get
    auto verify = [&](Prep &P) {
        const BigCase::Acc &a = c.acc[P.ai]; size_t ai = P.ai; long long n = P.n; int xs = P.xs;
        if (rank == 0) {   // the bytes sit where the format says
            for (long long e = 0; e < n; e++) {
                uint8_t want[8], got[8] = {0}; enc_be(want, P.type, P.vals[e]);
                unsigned long long off = (unsigned long long)P.offs[e];
                if (off + xs > ino->vis.size) { fail("big-offset", "element " + std::to_string(e) + " of access #" + std::to_string(ai) + " should be at byte " + std::to_string(off) + " but the file has only " + std::to_string(ino->vis.size) + " bytes"); break; }
                ino->vis.read(off, got, xs);
                if (memcmp(want, got, xs)) { fail("big-offset", "element " + std::to_string(e) + " of access #" + std::to_string(ai) + " (v" + std::to_string(a.var) + ") is not at byte offset " + std::to_string(off) + " where the format puts it"); break; }
            }
        }
        MPI_Barrier(MPI_COMM_WORLD);
        std::vector<uint8_t> rbuf((size_t)n * P.ms, 0xA5); const long long *sd = P.strided ? a.stride.data() : nullptr;
        rc = lib([&] { return api_typed(K_GET, P.form, true, ncid, varid[a.var], (const MPI_Offset *)a.start.data(), (const MPI_Offset *)a.count.data(), (const MPI_Offset *)sd, nullptr, rbuf.data(), P.mt, nullptr); });
        if (rc != NC_NOERR) fail("big-access", "get of access #" + std::to_string(ai) + " failed: " + ncmpi_strerrno(rc));
        else for (long long e = 0; e < n; e++) { long long g; if (!read_mem(rbuf.data() + e * P.ms, P.mt, g) || g != P.vals[e]) { fail("big-readback", "element " + std::to_string(e) + " of access #" + std::to_string(ai) + " read back as " + std::to_string(g) + ", written " + std::to_string(P.vals[e])); break; } }
        MPI_Barrier(MPI_COMM_WORLD);
    };
    auto make_visible = [&]() { lib([&] { return ncmpi_sync(ncid); }); MPI_Barrier(MPI_COMM_WORLD); };
    long long want_numrecs = 0;   // one plus the highest record index written by any access that was carried out
    auto note_records = [&](const BigCase::Acc &a) { const BigCase::Var &v = c.vars[a.var]; if (v.dimids.empty() || v.dimids[0] != unlim) return; long long cnt = a.count[0]; if (cnt <= 0) return; for (auto x : a.count) if (x <= 0) return; long long hi = a.start[0] + (cnt - 1) * (a.mode == 2 ? a.stride[0] : 1) + 1; if (hi > want_numrecs) want_numrecs = hi; };
    auto check_numrecs = [&](const char *when) {
        if (unlim < 0) return;
        MPI_Offset got = -1; int e2 = ncmpi_inq_dimlen(ncid, dimid[unlim], &got);
        if (e2 != NC_NOERR || got != want_numrecs) fail("big-numrecs", std::string(when) + ": the record dimension reports " + std::to_string((long long)got) + " records, the highest record written so far is " + std::to_string(want_numrecs - 1));
        if (rank == 0) { cdf::File d2; if (cdf::decode_header(ino->vis, d2) && d2.numrecs != want_numrecs) fail("big-numrecs", std::string(when) + ": the header in the file holds record count " + std::to_string(d2.numrecs) + ", expected " + std::to_string(want_numrecs)); }
    };
    std::list<Prep> pend;   // posted, not yet waited for (list: the buffers must not move)
    auto complete_pending = [&]() {
        std::vector<int> reqs; for (auto &P : pend) if (P.iw && P.req != NC_REQ_NULL) reqs.push_back(P.req);
        std::vector<int> stt(reqs.size() + 1, NC_NOERR);
        rc = lib([&] { return ncmpi_wait_all(ncid, (int)reqs.size(), reqs.data(), stt.data()); });
        int bad = rc; for (size_t k = 0; k < reqs.size(); k++) if (bad == NC_NOERR) bad = stt[k];
        if (bad != NC_NOERR) fail("big-access", "wait_all after " + std::to_string(pend.size()) + " iput(s) failed: " + std::string(ncmpi_strerrno(bad)));
        make_visible();
        for (auto &P : pend) note_records(c.acc[P.ai]);
        check_numrecs("after wait_all + sync");
        for (auto &P : pend) verify(P);
        pend.clear();
    };
    for (size_t ai = 0; ai < c.acc.size(); ai++) {
        const BigCase::Acc &a = c.acc[ai];
        Prep P0 = prep(ai); if (!P0.ok) continue;
        std::vector<long long> zc(a.start.size(), 0);
        const long long *sd = P0.strided ? a.stride.data() : nullptr;
        if (a.mode == 1 || a.mode == 3) {
            pend.push_back(std::move(P0)); Prep &P = pend.back(); int prc = NC_NOERR;
            if (P.iw) prc = lib([&] { return api_typed(K_IPUT, P.form, false, ncid, varid[a.var], (const MPI_Offset *)a.start.data(), (const MPI_Offset *)a.count.data(), (const MPI_Offset *)sd, nullptr, P.wbuf.data(), P.mt, &P.req); });
            if (prc != NC_NOERR) fail("big-access", "iput at " + std::to_string(a.start.empty() ? 0 : a.start[0]) + ".. failed: " + ncmpi_strerrno(prc));
            if (a.mode == 1) complete_pending();
            continue;
        }
        if (a.mode == 4 && ai + 1 < c.acc.size() && c.acc[ai + 1].mode == 5 && c.acc[ai + 1].var == a.var && nprocs >= 2 && (c.acc[ai + 1].writer % nprocs) != (a.writer % nprocs)) {
            // one collective call, two ranks with a block each
            Prep P1 = prep(ai + 1);
            if (P1.ok && !P1.strided) {
                const BigCase::Acc &b = c.acc[ai + 1];
                const long long *st = P1.iw ? b.start.data() : a.start.data(), *ct = P0.iw ? a.count.data() : P1.iw ? b.count.data() : zc.data(); void *buf = P1.iw ? (void *)P1.wbuf.data() : (void *)P0.wbuf.data();
                rc = lib([&] { return api_typed(K_PUT, F_VARA, true, ncid, varid[a.var], (const MPI_Offset *)st, (const MPI_Offset *)ct, nullptr, nullptr, buf, P0.mt, nullptr); });
                if (rc != NC_NOERR) fail("big-access", "collective put with two writing ranks failed: " + std::string(ncmpi_strerrno(rc)));
                make_visible(); note_records(a); note_records(b); check_numrecs("after a collective put + sync"); verify(P0); verify(P1); ai++; continue;
            }
        }
        {
            const long long *ct = P0.iw ? a.count.data() : zc.data();
            rc = lib([&] { return api_typed(K_PUT, P0.form, true, ncid, varid[a.var], (const MPI_Offset *)a.start.data(), (const MPI_Offset *)ct, (const MPI_Offset *)sd, nullptr, P0.wbuf.data(), P0.mt, nullptr); });
            if (rc != NC_NOERR) fail("big-access", "put of " + std::to_string(P0.n) + " element(s) of v" + std::to_string(a.var) + " failed: " + ncmpi_strerrno(rc));
            make_visible(); note_records(a); check_numrecs("after a collective put + sync"); verify(P0);
        }
    }
    if (!pend.empty()) complete_pending();
    finish();
    // ---- the file the library just wrote must open again (the size rules are re-checked on open) with the same layout
    MPI_Barrier(MPI_COMM_WORLD);
    int ncid2 = -1; rc = lib([&] { return ncmpi_open(MPI_COMM_WORLD, path, NC_NOWRITE, MPI_INFO_NULL, &ncid2); });
    if (rc != NC_NOERR) { fail("big-reopen", "ncmpi_open of the file just written with accepted definitions failed: " + std::string(ncmpi_strerrno(rc))); return; }
    if (unlim >= 0) { MPI_Offset got = -1; int ud = -1; ncmpi_inq_unlimdim(ncid2, &ud); if (ud >= 0) ncmpi_inq_dimlen(ncid2, ud, &got); if (got != want_numrecs) fail("big-numrecs", "after close and reopen the record dimension reports " + std::to_string((long long)got) + " records, expected " + std::to_string(want_numrecs)); }
    int nv2 = -1; ncmpi_inq_nvars(ncid2, &nv2); if (nv2 != (int)c.vars.size()) fail("big-reopen", "reopened file reports " + std::to_string(nv2) + " variables");
    for (size_t i = 0; i < d.vars.size() && (int)i < nv2; i++) { MPI_Offset off = -1; ncmpi_inq_varoffset(ncid2, (int)i, &off); if (off != d.vars[i].begin) fail("big-reopen", "after reopen ncmpi_inq_varoffset(v" + std::to_string(i) + ") = " + std::to_string((long long)off) + " but the header says " + std::to_string(d.vars[i].begin)); }
    lib([&] { return ncmpi_close(ncid2); });
}
