// Interpreter: one fiber per rank executes the annotated program against the real library; oracles.
#pragma once
#include "model.hpp"
#include "cdf.hpp"

struct RunOpts {
    bool check_rc = true;        // compare every return code with the model (off in fault-injecting runs)
    bool check_data = true;      // compare read buffers / file images with the model
    bool check_files = true;     // raw-image oracles at checkpoints
    bool check_buffers = true;   // canaries / caller buffers unchanged (C13)
    bool check_leaks = true;
    bool check_usage = false;    // attached-buffer usage accounting (C13)     // resource accounting when every file is closed (C17)
    bool record_iocalls = false;
    int stop_after_op = -1;      // fault runs: every rank stops after this op (no epilogue)
    bool trace = false;
    bool layout_strict = true;   // C03 layout rules at checkpoints
    bool check_hints = false;    // C10: effective hints reported by ncmpi_inq_file_info vs the settings and the layout in the file
    long long alloc_limit = 0;   // 0 = none; else flag single allocations above (C19)
};
struct OpResult { int rc = 0; bool executed = false; std::vector<int> statuses; };
struct RunResult {
    std::vector<sim::ViolationInfo> violations;
    sim::RunStats st;
    std::vector<std::vector<OpResult>> rcs;   // [rank][op]
    std::vector<sim::IoCall> iocalls;
    std::vector<sim::Fault> faults;           // with fired flags
    std::vector<std::pair<long, int>> deviations;
    std::map<std::string, long> probes;
    std::map<std::string, sim::Image> final_files;   // visible images at the end
    std::string trace;
    bool completed = false;
    std::string signature() const;   // class of the first violation (for shrinking / known findings)
};

RunResult run_program(Program &p, const RunOpts &o);   // annotates, then simulates
std::string violation_signature(const sim::ViolationInfo &v);
