#include "cdf.hpp"
#include <cstring>
#include <cmath>

namespace cdf {

enum { T_DIM = 10, T_VAR = 11, T_ATT = 12 };
int type_size(int t) { switch (t) { case 1: case 2: case 7: return 1; case 3: case 8: return 2; case 4: case 5: case 9: return 4; case 6: case 10: case 11: return 8; } return 0; }

struct Rd {
    const sim::Image &img; long long pos = 0; File &f; bool ok = true;
    Rd(const sim::Image &i, File &ff) : img(i), f(ff) {}
    bool need(long long n) { if (pos + n > (long long)img.size) { f.problems.push_back("header truncated at offset " + std::to_string(pos)); ok = false; return false; } return true; }
    unsigned long long be(int n) { if (!ok || !need(n)) return 0; unsigned long long v = 0; for (int i = 0; i < n; i++) v = (v << 8) | img.at(pos + i); pos += n; return v; }
    long long nonneg(int n, const char *what) { unsigned long long v = be(n); if (!ok) return 0; if (n == 4 && (v >> 31)) { f.problems.push_back(std::string(what) + ": negative 32-bit value"); ok = false; return 0; } if (n == 8 && (v >> 63)) { f.problems.push_back(std::string(what) + ": negative 64-bit value"); ok = false; return 0; } return (long long)v; }
    std::string name(int w) {
        long long n = nonneg(w, "name length"); if (!ok) return "";
        if (n > 65536) { f.problems.push_back("name length unreasonable: " + std::to_string(n)); ok = false; return ""; }
        if (!need((n + 3) / 4 * 4)) return "";
        std::string s; for (long long i = 0; i < n; i++) s += (char)img.at(pos + i);
        for (long long i = n; i < (n + 3) / 4 * 4; i++) if (img.at(pos + i) != 0) { f.problems.push_back("name '" + s + "': padding bytes not zero"); }
        pos += (n + 3) / 4 * 4; return s;
    }
};

static bool rd_atts(Rd &r, int w, std::vector<Att> &out, const std::string &ctx) {
    unsigned long long tag = r.be(4); long long n = r.nonneg(w, "attribute count"); if (!r.ok) return false;
    if (tag == 0) { if (n != 0) { r.f.problems.push_back(ctx + ": ABSENT attribute list with nelems != 0"); r.ok = false; } return r.ok; }
    if (tag != T_ATT) { r.f.problems.push_back(ctx + ": expected NC_ATTRIBUTE tag, found " + std::to_string(tag)); r.ok = false; return false; }
    if (n > 1000000) { r.f.problems.push_back(ctx + ": attribute count unreasonable"); r.ok = false; return false; }
    for (long long i = 0; i < n && r.ok; i++) {
        Att a; a.name = r.name(w); a.type = (int)r.be(4); if (!r.ok) break;
        int ts = type_size(a.type);
        if (!ts || (r.f.version < 5 && a.type > 6)) { r.f.problems.push_back(ctx + ": attribute '" + a.name + "' has invalid type " + std::to_string(a.type)); r.ok = false; break; }
        a.nelems = r.nonneg(w, "attribute nelems"); if (!r.ok) break;
        if (a.nelems > (1LL << 40)) { r.ok = false; r.f.problems.push_back(ctx + ": attribute '" + a.name + "' element count unreasonable"); break; }
        long long nb = a.nelems * ts, padded = (nb + 3) / 4 * 4;
        if (!r.need(padded)) { r.ok = false; r.f.problems.push_back(ctx + ": attribute '" + a.name + "' values truncated"); break; }
        a.raw.resize((size_t)nb); for (long long k = 0; k < nb; k++) a.raw[(size_t)k] = r.img.at(r.pos + k);
        r.pos += padded; out.push_back(a);
    }
    return r.ok;
}

bool decode_header(const sim::Image &img, File &f) {
    f = File(); Rd r(img, f);
    if (!img.exists && img.size == 0) { f.problems.push_back("file does not exist or is empty"); return false; }
    if (img.size < 4 || img.at(0) != 'C' || img.at(1) != 'D' || img.at(2) != 'F') { f.problems.push_back("bad magic"); return false; }
    f.version = img.at(3); if (f.version != 1 && f.version != 2 && f.version != 5) { f.problems.push_back("bad version byte " + std::to_string(f.version)); return false; }
    r.pos = 4; int w = f.version == 5 ? 8 : 4;
    unsigned long long nr = r.be(w); if (!r.ok) return false;
    if ((w == 4 && nr == 0xffffffffULL) || (w == 8 && nr == ~0ULL)) { f.streaming = true; f.numrecs = 0; } else f.numrecs = (long long)nr;
    if (!f.streaming && ((w == 4 && (nr >> 31)) || (w == 8 && (nr >> 63)))) { f.problems.push_back("numrecs negative"); return false; }
    // dim_list
    unsigned long long tag = r.be(4); long long n = r.nonneg(w, "dimension count"); if (!r.ok) return false;
    if (tag == 0) { if (n != 0) { f.problems.push_back("ABSENT dimension list with nelems != 0"); return false; } }
    else if (tag != T_DIM) { f.problems.push_back("expected NC_DIMENSION tag, found " + std::to_string(tag)); return false; }
    else {
        if (n > 1000000) { f.problems.push_back("dimension count unreasonable"); return false; }
        for (long long i = 0; i < n && r.ok; i++) { Dim d; d.name = r.name(w); d.len = r.nonneg(w, "dimension length"); if (d.len == 0) { if (f.unlimdim >= 0) f.problems.push_back("more than one unlimited dimension"); f.unlimdim = (int)i; } f.dims.push_back(d); }
        if (!r.ok) return false;
    }
    if (!rd_atts(r, w, f.gatts, "global")) return false;
    tag = r.be(4); n = r.nonneg(w, "variable count"); if (!r.ok) return false;
    if (tag == 0) { if (n != 0) { f.problems.push_back("ABSENT variable list with nelems != 0"); return false; } }
    else if (tag != T_VAR) { f.problems.push_back("expected NC_VARIABLE tag, found " + std::to_string(tag)); return false; }
    else {
        if (n > 1000000) { f.problems.push_back("variable count unreasonable"); return false; }
        for (long long i = 0; i < n && r.ok; i++) {
            Var v; v.name = r.name(w); long long nd = r.nonneg(w, "variable rank"); if (!r.ok) break;
            if (nd > 1024) { f.problems.push_back("variable '" + v.name + "' rank unreasonable"); r.ok = false; break; }
            for (long long k = 0; k < nd && r.ok; k++) {
                long long d = r.nonneg(w, "dimid"); if (!r.ok) break;
                if (d >= (long long)f.dims.size()) { f.problems.push_back("variable '" + v.name + "' refers to undefined dimension " + std::to_string(d)); r.ok = false; break; }
                v.dimids.push_back(d); v.shape.push_back(f.dims[(size_t)d].len);
                if (f.dims[(size_t)d].len == 0) { if (k != 0) { f.problems.push_back("variable '" + v.name + "': unlimited dimension not first"); } v.isrec = true; }
                else { if (v.nelems_per_rec > 0 && f.dims[(size_t)d].len > 0x7fffffffffffffffLL / v.nelems_per_rec) v.nelems_per_rec = -1; else if (v.nelems_per_rec >= 0) v.nelems_per_rec *= f.dims[(size_t)d].len; }
            }
            if (!r.ok) break;
            if (!rd_atts(r, w, v.atts, "variable '" + v.name + "'")) break;
            v.type = (int)r.be(4); int ts = type_size(v.type);
            if (r.ok && (!ts || (f.version < 5 && v.type > 6))) { f.problems.push_back("variable '" + v.name + "' has invalid type " + std::to_string(v.type)); r.ok = false; break; }
            if (r.ok && v.nelems_per_rec > 0 && v.nelems_per_rec > (0x7fffffffffffffffLL - 3) / ts) v.nelems_per_rec = -1;   // byte size not representable: no size arithmetic on it
            v.vsize = r.be(w); v.begin = r.nonneg(f.version == 1 ? 4 : 8, "variable begin");
            f.vars.push_back(v);
        }
        if (!r.ok) return false;
    }
    f.header_len = r.pos;
    // record size by the specification rule
    int nrecvars = 0; const Var *only = nullptr; long long sum = 0;
    for (auto &v : f.vars) if (v.isrec) { nrecvars++; only = &v; long long sz = v.nelems_per_rec * type_size(v.type); sum += (sz + 3) / 4 * 4; }
    if (nrecvars == 1) f.recsize = only->nelems_per_rec * type_size(only->type); else f.recsize = sum;
    return f.problems.empty();
}

void check_layout(const File &f, unsigned long long file_size, std::vector<std::string> &pr) {
    long long prev_end = f.header_len; bool first = true; long long last_begin = -1;
    // fixed variables first (in definition order), then record variables: begins must increase in definition order within each class
    for (int pass = 0; pass < 2; pass++) {
        for (auto &v : f.vars) {
            if ((int)v.isrec != pass) continue;
            long long sz = v.nelems_per_rec * type_size(v.type), padded = (sz + 3) / 4 * 4;
            if (v.begin % 4) pr.push_back("variable '" + v.name + "' begin " + std::to_string(v.begin) + " not 4-byte aligned");
            if (v.begin < prev_end) pr.push_back("variable '" + v.name + "' begin " + std::to_string(v.begin) + " overlaps the preceding header/variable ending at " + std::to_string(prev_end));
            if (v.begin <= last_begin) pr.push_back("variable '" + v.name + "' begin not increasing in definition order");
            last_begin = v.begin; first = false;
            // vsize rule
            unsigned long long expect = (unsigned long long)padded;
            if (f.version < 5 && expect > 4294967292ULL) expect = 4294967295ULL;
            if (v.vsize != expect) pr.push_back("variable '" + v.name + "' vsize " + std::to_string(v.vsize) + " != spec value " + std::to_string(expect));
            int nrecvars = 0; for (auto &x : f.vars) nrecvars += x.isrec;
            prev_end = v.begin + ((v.isrec && nrecvars == 1) ? sz : padded);
            if (!v.isrec) prev_end = v.begin + padded;
        }
    }
    (void)first; (void)file_size;
}

long long elem_offset(const File &f, const Var &v, long long k) {
    int ts = type_size(v.type);
    if (!v.isrec) return v.begin + k * ts;
    long long rec = k / v.nelems_per_rec, i = k % v.nelems_per_rec;
    return v.begin + rec * f.recsize + i * ts;
}
static void decode_val(const uint8_t *b, int type, long long &iv, double &dv, bool &isf) {
    int ts = type_size(type); unsigned long long u = 0; for (int i = 0; i < ts; i++) u = (u << 8) | b[i];
    isf = false; dv = 0; iv = 0;
    switch (type) {
    case 1: iv = (int8_t)u; break; case 2: iv = (uint8_t)u; break; case 3: iv = (int16_t)u; break; case 4: iv = (int32_t)u; break;
    case 5: { uint32_t x = (uint32_t)u; float fl; memcpy(&fl, &x, 4); dv = fl; isf = true; iv = (long long)(std::fabs(dv) < 9e18 ? dv : 0); break; }
    case 6: { double d; memcpy(&d, &u, 8); dv = d; isf = true; iv = (long long)(std::fabs(dv) < 9e18 ? dv : 0); break; }
    case 7: iv = (uint8_t)u; break; case 8: iv = (uint16_t)u; break; case 9: iv = (uint32_t)u; break; case 10: iv = (long long)u; break; case 11: iv = (long long)u; break;
    }
    if (!isf) dv = (double)iv;
}
bool read_elem(const sim::Image &img, const File &f, const Var &v, long long k, long long &iv, double &dv, bool &isf) {
    long long off = elem_offset(f, v, k); int ts = type_size(v.type);
    if (off < 0 || off > (1LL << 60)) { iv = 0; dv = 0; isf = false; return false; }
    uint8_t b[8] = {0}; img.read((uint64_t)off, b, ts);
    decode_val(b, v.type, iv, dv, isf);
    return (unsigned long long)(off + ts) <= img.size;
}
long long att_int(const Att &a, long long i, double *dvp) {
    long long iv; double dv; bool isf; int ts = type_size(a.type);
    if ((size_t)((i + 1) * ts) > a.raw.size()) return 0;
    decode_val(a.raw.data() + i * ts, a.type, iv, dv, isf); if (dvp) *dvp = dv; return iv;
}

// ---------------------------------------------------------------- encoder
void put_be(std::vector<uint8_t> &b, unsigned long long v, int n) { for (int i = n - 1; i >= 0; i--) b.push_back((uint8_t)(v >> (8 * i))); }
static void put_name(std::vector<uint8_t> &b, const std::string &s, int w) { put_be(b, s.size(), w); for (char c : s) b.push_back((uint8_t)c); while (b.size() % 4) b.push_back(0); }
static void put_atts(std::vector<uint8_t> &b, const std::vector<Att> &l, int w, int absent_style) {
    if (l.empty()) { put_be(b, absent_style ? T_ATT : 0, 4); put_be(b, 0, w); return; }
    put_be(b, T_ATT, 4); put_be(b, l.size(), w);
    for (auto &a : l) { put_name(b, a.name, w); put_be(b, a.type, 4); put_be(b, a.nelems, w); for (auto c : a.raw) b.push_back(c); while (b.size() % 4) b.push_back(0); }
}
std::vector<uint8_t> encode(File &f, const std::vector<std::vector<uint8_t>> &data, const EncOpts &o) {
    int w = f.version == 5 ? 8 : 4, bw = f.version == 1 ? 4 : 8;
    for (auto &v : f.vars) { v.isrec = false; v.nelems_per_rec = 1; v.shape.clear(); for (size_t k = 0; k < v.dimids.size(); k++) { long long len = f.dims[(size_t)v.dimids[k]].len; v.shape.push_back(len); if (len == 0) v.isrec = true; else v.nelems_per_rec *= len; } }
    int nrecvars = 0; for (auto &v : f.vars) nrecvars += v.isrec;
    auto header = [&](bool final) {
        std::vector<uint8_t> b = {'C', 'D', 'F', (uint8_t)f.version};
        put_be(b, (unsigned long long)f.numrecs, w);
        if (f.dims.empty()) { put_be(b, o.absent_style ? T_DIM : 0, 4); put_be(b, 0, w); }
        else { put_be(b, T_DIM, 4); put_be(b, f.dims.size(), w); for (auto &d : f.dims) { put_name(b, d.name, w); put_be(b, d.len, w); } }
        put_atts(b, f.gatts, w, o.absent_style);
        if (f.vars.empty()) { put_be(b, o.absent_style ? T_VAR : 0, 4); put_be(b, 0, w); }
        else {
            put_be(b, T_VAR, 4); put_be(b, f.vars.size(), w);
            for (auto &v : f.vars) {
                put_name(b, v.name, w); put_be(b, v.dimids.size(), w); for (auto d : v.dimids) put_be(b, d, w);
                put_atts(b, v.atts, w, o.absent_style); put_be(b, v.type, 4);
                unsigned long long vs = v.vsize; if (final && o.stale_vsize) vs = (vs + 8) & ~3ULL;
                put_be(b, vs, w); put_be(b, (unsigned long long)v.begin, bw);
            }
        }
        return b;
    };
    long long hlen = (long long)header(false).size();
    f.header_len = hlen;
    long long pos = (hlen + o.header_pad + 3) / 4 * 4;
    size_t gi = 0; long long recsum = 0; const Var *only = nullptr;
    for (auto &v : f.vars) {
        long long sz = v.nelems_per_rec * type_size(v.type), padded = (sz + 3) / 4 * 4;
        v.vsize = (unsigned long long)padded; if (f.version < 5 && v.vsize > 4294967292ULL) v.vsize = 4294967295ULL;
        if (v.isrec) { recsum += padded; only = &v; }
    }
    f.recsize = nrecvars == 1 ? only->nelems_per_rec * type_size(only->type) : recsum;
    for (auto &v : f.vars) if (!v.isrec) { if (gi < o.gaps.size()) pos += o.gaps[gi] / 4 * 4; gi++; v.begin = pos; pos += (long long)((v.nelems_per_rec * type_size(v.type) + 3) / 4 * 4); }
    long long recstart = pos; bool firstrec = true;
    for (auto &v : f.vars) if (v.isrec) { if (firstrec && gi < o.gaps.size()) { pos += o.gaps[gi] / 4 * 4; recstart = pos; } firstrec = false; v.begin = pos; pos += (nrecvars == 1) ? v.nelems_per_rec * type_size(v.type) : (long long)((v.nelems_per_rec * type_size(v.type) + 3) / 4 * 4); }
    (void)recstart;
    std::vector<uint8_t> out = header(true);
    // free space / gaps
    long long total = 0;
    for (size_t i = 0; i < f.vars.size(); i++) { auto &v = f.vars[i]; long long sz = v.nelems_per_rec * type_size(v.type); long long end = v.isrec ? (f.numrecs ? v.begin + (f.numrecs - 1) * f.recsize + sz : v.begin) : v.begin + sz; if (end > total) total = end; }
    if (total < (long long)out.size()) total = (long long)out.size();
    sim::Rng jr(o.junk_seed);
    size_t hdr_end = out.size();
    out.resize((size_t)total, 0);
    long long first_begin = total; for (auto &v : f.vars) first_begin = std::min(first_begin, v.begin);
    for (long long i = (long long)hdr_end; i < first_begin; i++) out[(size_t)i] = o.junk_seed ? (uint8_t)jr.next() : o.pad_byte;
    for (size_t i = 0; i < f.vars.size() && i < data.size(); i++) {
        auto &v = f.vars[i]; long long sz = v.nelems_per_rec * type_size(v.type);
        if (!v.isrec) { for (long long k = 0; k < sz && k < (long long)data[i].size(); k++) out[(size_t)(v.begin + k)] = data[i][(size_t)k]; }
        else for (long long r = 0; r < f.numrecs; r++) for (long long k = 0; k < sz && r * sz + k < (long long)data[i].size(); k++) out[(size_t)(v.begin + r * f.recsize + k)] = data[i][(size_t)(r * sz + k)];
    }
    return out;
}

} // namespace cdf
