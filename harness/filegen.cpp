// Random spec-valid classic files built with the independent encoder (C04, C19 seed files).
#include "profile.hpp"
#include "cdf.hpp"

static void put_val(std::vector<uint8_t> &b, int type, long long v) {
    switch (type) {
    case NC_BYTE: case NC_CHAR: case NC_UBYTE: b.push_back((uint8_t)v); break;
    case NC_SHORT: case NC_USHORT: cdf::put_be(b, (unsigned long long)v & 0xffff, 2); break;
    case NC_INT: case NC_UINT: cdf::put_be(b, (unsigned long long)v & 0xffffffffULL, 4); break;
    case NC_FLOAT: { float f = (float)v; uint32_t u; memcpy(&u, &f, 4); cdf::put_be(b, u, 4); break; }
    case NC_DOUBLE: { double d = (double)v; uint64_t u; memcpy(&u, &d, 8); cdf::put_be(b, u, 8); break; }
    default: cdf::put_be(b, (unsigned long long)v, 8); break;
    }
}
static cdf::Att rand_att(sim::Rng &rng, int version, const std::string &name, bool big) {
    cdf::Att a; a.name = name; a.type = version == 5 ? (int)rng.range(NC_BYTE, NC_UINT64) : (int)rng.range(NC_BYTE, NC_DOUBLE);
    a.nelems = rng.chance(0.2) ? 0 : (big && rng.chance(0.1) ? rng.range(200, 3000) : rng.range(1, 9));
    for (long long i = 0; i < a.nelems; i++) put_val(a.raw, a.type, 1 + (long long)rng.below((uint64_t)type_maxval(a.type)));
    return a;
}
std::vector<uint8_t> random_valid_file(uint64_t seed, bool dialect, bool big, int force_version) {
    sim::Rng rng(seed * 0x2545F4914F6CDD1DULL + 99);
    cdf::File f; f.version = force_version ? force_version : (int[]){1, 2, 5}[rng.below(3)];
    int nd = (int)rng.range(0, 5); bool unl = false;
    for (int i = 0; i < nd; i++) { cdf::Dim d; d.name = "d" + std::to_string(i) + (rng.chance(0.2) ? "_\xc3\xa9" : ""); if (!unl && rng.chance(0.35)) { d.len = 0; unl = true; } else d.len = rng.range(1, 5); f.dims.push_back(d); }
    f.numrecs = unl ? rng.range(0, 3) : 0;
    int ng = (int)rng.range(0, 4); for (int i = 0; i < ng; i++) f.gatts.push_back(rand_att(rng, f.version, "g" + std::to_string(i), big));
    int nv = (int)rng.range(0, 5);
    std::vector<std::vector<uint8_t>> data;
    for (int i = 0; i < nv; i++) {
        cdf::Var v; v.name = "v" + std::to_string(i) + (rng.chance(0.15) ? std::string(rng.range(1, 30), 'n') : ""); v.type = f.version == 5 ? (int)rng.range(NC_BYTE, NC_UINT64) : (int)rng.range(NC_BYTE, NC_DOUBLE);
        int r = nd ? (int)rng.range(0, 3) : 0; bool rec = false;
        if (nd && rng.chance(0.05)) r = (int)rng.range(17, 24);   // more dimensions than any fixed-size scratch array a reader might use
        for (int k = 0; k < r; k++) { int d = (int)rng.below(nd); if (f.dims[d].len == 0) { if (k != 0) { k--; if (rng.chance(0.5)) break; continue; } rec = true; } v.dimids.push_back(d); }
        // the unlimited dimension may only be first
        for (size_t k = 1; k < v.dimids.size(); k++) if (f.dims[(size_t)v.dimids[k]].len == 0) { v.dimids.resize(k); break; }
        if (v.dimids.size() > 8) { long long n0 = 1; for (size_t k = 0; k < v.dimids.size(); k++) { long long l = f.dims[(size_t)v.dimids[k]].len ? f.dims[(size_t)v.dimids[k]].len : f.numrecs; if (n0 * l > 256 || l == 0) { int one = -1; for (int d = 0; d < nd; d++) if (f.dims[(size_t)d].len == 1) one = d; if (one < 0) { cdf::Dim d1; d1.name = "one"; d1.len = 1; f.dims.push_back(d1); one = nd; nd++; } if (k == 0 && l == 0) continue; v.dimids[k] = one; } else n0 *= l; } }
        int na = (int)rng.range(0, 2); for (int k = 0; k < na; k++) v.atts.push_back(rand_att(rng, f.version, "a" + std::to_string(k), false));
        f.vars.push_back(v);
        long long n = 1; for (auto d : v.dimids) n *= f.dims[(size_t)d].len ? f.dims[(size_t)d].len : f.numrecs;
        std::vector<uint8_t> bytes; for (long long e = 0; e < n; e++) put_val(bytes, v.type, v.type == NC_CHAR ? 1 + (long long)rng.below(120) : 1 + (long long)rng.below((uint64_t)type_maxval(v.type)));
        data.push_back(bytes); (void)rec;
    }
    cdf::EncOpts o;
    if (dialect) {
        o.header_pad = rng.chance(0.5) ? rng.range(0, 400) : 0; o.stale_vsize = rng.chance(0.3); o.absent_style = (int)rng.below(2); o.junk_seed = rng.chance(0.5) ? rng.next() | 1 : 0; o.pad_byte = (uint8_t)rng.next();
        for (int i = 0; i < nv + 1; i++) o.gaps.push_back(rng.chance(0.4) ? 4 * rng.range(0, 20) : 0);
    }
    return cdf::encode(f, data, o);
}

// a small valid file whose only notable feature is a variable of `rank` dimensions (all of length 1 or 2)
std::vector<uint8_t> highrank_valid_file(int version, int rank) {
    cdf::File f; f.version = version; cdf::Dim a; a.name = "one"; a.len = 1; cdf::Dim b; b.name = "two"; b.len = 2; cdf::Dim t; t.name = "t"; t.len = 0; f.dims = {t, a, b}; f.numrecs = 1;
    std::vector<std::vector<uint8_t>> data;
    { cdf::Var v; v.name = "deep"; v.type = NC_SHORT; for (int k = 0; k < rank; k++) v.dimids.push_back(k == rank - 1 ? 2 : 1); f.vars.push_back(v); std::vector<uint8_t> by; put_val(by, NC_SHORT, 11); put_val(by, NC_SHORT, 12); data.push_back(by); }
    { cdf::Var v; v.name = "deeprec"; v.type = NC_INT; v.dimids.push_back(0); for (int k = 1; k < rank + 3; k++) v.dimids.push_back(1); f.vars.push_back(v); std::vector<uint8_t> by; put_val(by, NC_INT, 77); data.push_back(by); }
    { cdf::Var v; v.name = "flat"; v.type = NC_INT; v.dimids = {2}; f.vars.push_back(v); std::vector<uint8_t> by; put_val(by, NC_INT, 5); put_val(by, NC_INT, 6); data.push_back(by); }
    cdf::EncOpts o; return cdf::encode(f, data, o);
}
