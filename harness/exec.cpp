#include "exec.hpp"
#include "bigcase.hpp"
#include <algorithm>
#include <cmath>
#include <cstring>

using sim::violation;

namespace {

struct UserBuf {
    std::vector<uint8_t> mem, orig; size_t lead = 64;
    MPI_Datatype btype = MPI_DATATYPE_NULL; MPI_Offset bufcount = 0; bool own_type = false;
    std::vector<size_t> pos;   // byte offset (from lead) of the k-th selected element, selection order
    int mt = MT_INT, esize = 4; long long span = 0;
    void *ptr() { return mem.data() + lead; }
};
struct PendingReq { bool live = false; int kind = 0; int reqid = NC_REQ_NULL; std::shared_ptr<UserBuf> ub; Access *acc = nullptr; int var = 0; int opidx = -1; int file = 0; };
struct RankState { MPI_Comm comm = MPI_COMM_WORLD; /* the communicator files are created / opened with: MPI_COMM_WORLD or, for a third of the programs, a duplicate of it */ std::vector<int> closed_ids; std::vector<int> ncid; std::vector<std::vector<PendingReq>> reqs; std::vector<std::vector<uint8_t>> abuf; };
struct Ctx {
    Program *p; RunOpts o; RunResult *res; int n;
    std::vector<RankState> rs;
    std::vector<int> cp_arrived, cp_arrived2, cp_done, bar_arrived;
    std::map<int, sim::Image> snaps;
};

void write_mem(void *p, int mt, long long v) {
    switch (mt) {
    case MT_TEXT: *(char *)p = (char)v; break; case MT_SCHAR: *(signed char *)p = (signed char)v; break; case MT_UCHAR: *(unsigned char *)p = (unsigned char)v; break;
    case MT_SHORT: *(short *)p = (short)v; break; case MT_USHORT: *(unsigned short *)p = (unsigned short)v; break; case MT_INT: *(int *)p = (int)v; break;
    case MT_UINT: *(unsigned *)p = (unsigned)v; break; case MT_LONG: *(long *)p = (long)v; break; case MT_FLOAT: *(float *)p = (float)v; break;
    case MT_DOUBLE: *(double *)p = (double)v; break; case MT_LONGLONG: *(long long *)p = v; break; case MT_ULONGLONG: *(unsigned long long *)p = (unsigned long long)v; break;
    }
}
bool read_mem(const void *p, int mt, long long &v) {
    switch (mt) {
    case MT_TEXT: v = (unsigned char)*(const char *)p; return true; case MT_SCHAR: v = *(const signed char *)p; return true; case MT_UCHAR: v = *(const unsigned char *)p; return true;
    case MT_SHORT: v = *(const short *)p; return true; case MT_USHORT: v = *(const unsigned short *)p; return true; case MT_INT: v = *(const int *)p; return true;
    case MT_UINT: v = *(const unsigned *)p; return true; case MT_LONG: v = *(const long *)p; return true;
    case MT_FLOAT: { float f = *(const float *)p; if (!(std::fabs(f) < 1e18f) || f != std::floor(f)) { v = 0; return false; } v = (long long)f; return true; }
    case MT_DOUBLE: { double d = *(const double *)p; if (!(std::fabs(d) < 1e18) || d != std::floor(d)) { v = 0; return false; } v = (long long)d; return true; }
    case MT_LONGLONG: v = *(const long long *)p; return true; case MT_ULONGLONG: v = (long long)*(const unsigned long long *)p; return true;
    }
    return false;
}
// fill value as it appears in memory of the native memtype
void fill_mem(void *p, int nctype, bool has_fillv, long long fillv) {
    int mt = native_memtype(nctype);
    if (has_fillv) { write_mem(p, mt, fillv); return; }
    bool isf; double fv; long long iv = default_fill_as_int(nctype, isf, fv);
    if (isf) { if (mt == MT_FLOAT) *(float *)p = (float)fv; else *(double *)p = fv; }
    else write_mem(p, mt, iv);
}

// memory element index for the k-th selected element (varm: via imap)
void mem_indices(const Access &a, long long n, std::vector<long long> &mi, long long &span) {
    mi.resize((size_t)n); span = n;
    if (a.form == F_VARM && !a.imap.empty() && a.imap.size() == a.count.size()) {
        size_t nd = a.count.size(); std::vector<long long> idx(nd, 0); span = 0;
        for (long long k = 0; k < n; k++) {
            long long m = 0; for (size_t d = 0; d < nd; d++) m += idx[d] * a.imap[d];
            mi[(size_t)k] = m; if (m + 1 > span) span = m + 1;
            for (int d = (int)nd - 1; d >= 0; d--) { if (++idx[d] < a.count[d]) break; idx[d] = 0; }
        }
    } else for (long long k = 0; k < n; k++) mi[(size_t)k] = k;
}
size_t layout_off(int bufkind, long long m, int es) {
    switch (bufkind) {
    case 1: return (size_t)(m * 2 * es);
    case 3: return (size_t)((m / 2 * 5 + m % 2) * es);
    case 4: return (size_t)(m * 3 * es);
    case 5: case 6: case 7: return (size_t)((m + 2) * es);
    default: return (size_t)(m * es);
    }
}
std::shared_ptr<UserBuf> make_buf(const Access &a, long long n) {
    auto ub = std::make_shared<UserBuf>();
    ub->mt = a.memtype; ub->esize = mt_size(a.memtype);
    std::vector<long long> mi; mem_indices(a, n, mi, ub->span);
    int kind = a.flexible ? a.bufkind : 0;
    long long span = ub->span; int es = ub->esize;
    size_t total = span ? layout_off(kind, span - 1, es) + es : 0;
    if (kind >= 5) total = (size_t)((span + 3) * es);
    ub->mem.assign(ub->lead * 2 + total + 16, 0xA5);
    ub->pos.resize((size_t)n);
    for (long long k = 0; k < n; k++) ub->pos[(size_t)k] = layout_off(kind, mi[(size_t)k], es);
    MPI_Datatype basic = mt_mpi(a.memtype);
    ub->btype = basic; ub->bufcount = span;
    if (a.flexible) {
        switch (kind) {
        case 1: MPI_Type_vector((int)span, 1, 2, basic, &ub->btype); ub->bufcount = span ? 1 : 0; ub->own_type = true; break;
        case 2: MPI_Type_contiguous((int)span, basic, &ub->btype); ub->bufcount = span ? 1 : 0; ub->own_type = true; break;
        case 3: {
            int nb = (int)((span + 1) / 2); std::vector<int> bl(nb, 2), dp(nb);
            for (int i = 0; i < nb; i++) dp[i] = i * 5; if (span % 2 && nb) bl[nb - 1] = 1;
            MPI_Type_indexed(nb, bl.data(), dp.data(), basic, &ub->btype); ub->bufcount = span ? 1 : 0; ub->own_type = true; break;
        }
        case 4: MPI_Type_create_resized(basic, 0, 3 * es, &ub->btype); ub->bufcount = span; ub->own_type = true; break;
        case 5: { int sz = (int)span + 3, sub = (int)span, st = 2; if (span == 0) { ub->btype = basic; ub->bufcount = 0; break; }
                  MPI_Type_create_subarray(1, &sz, &sub, &st, MPI_ORDER_C, basic, &ub->btype); ub->bufcount = 1; ub->own_type = true; break; }
        case 6: { if (span == 0) { ub->btype = basic; ub->bufcount = 0; break; } int dp = 2;   // ONE block with a non-zero displacement (contiguous data that does not start at the buffer address)
                  MPI_Type_create_indexed_block(1, (int)span, &dp, basic, &ub->btype); ub->bufcount = 1; ub->own_type = true; break; }
        case 7: { if (span == 0) { ub->btype = basic; ub->bufcount = 0; break; } int bl = (int)span; MPI_Aint dp = 2 * es;
                  MPI_Type_create_hindexed(1, &bl, &dp, basic, &ub->btype); ub->bufcount = 1; ub->own_type = true; break; }
        default: break;
        }
        if (ub->own_type) MPI_Type_commit(&ub->btype);
    }
    return ub;
}
void free_buf(UserBuf &ub) { if (ub.own_type && ub.btype != MPI_DATATYPE_NULL) { MPI_Type_free(&ub.btype); ub.own_type = false; } }

std::string hexdump(UserBuf &ub) { std::string s; char b[4]; size_t n = std::min<size_t>(ub.mem.size() - 2 * ub.lead, 48); for (size_t i = 0; i < n; i++) { snprintf(b, sizeof b, "%02x", ub.mem[ub.lead + i]); s += b; } return s; }
std::string acc_str(const Access &a) {
    std::string s = std::string("form=") + std::to_string(a.form) + " mt=" + mt_name(a.memtype) + (a.flexible ? " flex" + std::to_string(a.bufkind) : "") + " start=[";
    for (auto x : a.start) s += std::to_string(x) + ","; s += "] count=["; for (auto x : a.count) s += std::to_string(x) + ",";
    s += "]"; if (!a.stride.empty()) { s += " stride=["; for (auto x : a.stride) s += std::to_string(x) + ","; s += "]"; }
    if (!a.imap.empty()) { s += " imap=["; for (auto x : a.imap) s += std::to_string(x) + ","; s += "]"; }
    if (a.form == F_VARN) s += " nreq=" + std::to_string(a.nstart.size());
    return s;
}

struct Exec {
    Ctx &c; int r; RankState &me;
    Exec(Ctx &cc, int rank) : c(cc), r(rank), me(cc.rs[rank]) {}

    void fail(const std::string &oracle, int opi, const std::string &detail) {
        violation("oracle:" + oracle, "rank " + std::to_string(r) + " op#" + std::to_string(opi) + " " + (opi >= 0 ? op_to_string(c.p->ops[opi], r) : std::string()) + ": " + detail);
    }
    void rc_check(Op &op, int opi, int rc, int exp, bool any) {
        if (!(c.res->rcs[r][opi].executed && c.res->rcs[r][opi].rc != NC_NOERR)) c.res->rcs[r][opi].rc = rc;   // keep the first error of compound ops
        c.res->rcs[r][opi].executed = true;
        if (!c.o.check_rc || any) return;
        for (int alt : op.exp_rc_alt) if (rc == alt) return;
        if (rc != exp) fail("rc", opi, std::string("returned ") + ncmpi_strerrno(rc) + " expected " + ncmpi_strerrno(exp));
    }
    int exp_rc(Op &op) { return op.exp_rc_rank.empty() ? op.exp_rc : op.exp_rc_rank[r]; }

    MPI_Info make_info(Op &op) {
        if (op.hints.empty()) return MPI_INFO_NULL;
        MPI_Info info; MPI_Info_create(&info);
        for (auto &kv : op.hints) MPI_Info_set(info, kv.first.c_str(), kv.second.c_str());
        return info;
    }

    // blocking vara/vars/varm requests are routed through ncmpi_mput_* / ncmpi_mget_* for a quarter of the (op, rank) pairs
    bool use_mvar(Op &op, int opi, Access &a, int kind, int ncid, int varid, const MPI_Offset *sp) {
        if (kind != K_PUT && kind != K_GET) return false;
        if ((opi * 7 + (op.coll ? 0 : r * 3) + (int)(c.p->seed % 4)) % 4 != 1) return false;   // every rank of a collective call must take the same API
        if (c.p->cfg.flags & 4) return false;   // burst-buffer fragment rules are stated for the single-variable calls
        int nd = -1; if (ncmpi_inq_varndims(ncid, op.var, &nd) != NC_NOERR || nd <= 0) return false;
        auto eligible = [&](const Access &x) {
            if (x.form != F_VARA && x.form != F_VARS && x.form != F_VARM) return false;
            if (!(x.invalid == INV_NONE || x.invalid == INV_BAD_START || x.invalid == INV_BAD_EDGE || x.invalid == INV_NEG_COUNT || x.invalid == INV_BAD_STRIDE)) return false;
            if (x.start.size() != (size_t)nd || x.count.size() != x.start.size()) return false;
            if (x.form != F_VARA && !x.stride.empty() && x.stride.size() != x.start.size()) return false;
            return true;
        };
        if (op.coll) { for (auto &x : op.acc) if (x.active && !eligible(x)) return false; }
        else if (!eligible(a)) return false;
        if (a.active && (!sp || varid != op.var)) return false;
        return true;
    }
    // ---- data access
    int issue(Op &op, int opi, Access &a, int kind, int ncid, std::shared_ptr<UserBuf> &ub, int *req) {
        int varid = op.var;
        if (a.invalid == INV_BAD_VARID) varid = 9999;
        long long n = (long long)a.elems.size();
        if (a.exp_rc != NC_NOERR) n = std::max<long long>(acc_nelems(a), 0);
        if (n < 0 || n > (1 << 22)) n = 0;
        ub = make_buf(a, n);
        // flexible API with buftype MPI_DATATYPE_NULL ("the buffer holds data of the variable's own type"; bufcount is then documented as ignored): taken for a third of the
        // flexible requests whose memory type is the variable's native type and whose buffer is contiguous from its start
        if (a.flexible && (a.bufkind == 0 || a.bufkind == 2) && a.form != F_VARD && (opi + r) % 3 == 0 && a.invalid == INV_NONE) {
            nc_type xt = NC_NAT; if (ncmpi_inq_vartype(ncid, varid, &xt) == NC_NOERR && native_memtype(xt) == a.memtype) {
                free_buf(*ub); ub->btype = MPI_DATATYPE_NULL; ub->own_type = false; ub->bufcount = (opi % 3 == 0) ? 0 : (opi % 3 == 1) ? -1 : ub->span + 5; c.res->probes["buftype_null_calls"]++;
            }
        }
        bool is_put = (kind == K_PUT || kind == K_IPUT || kind == K_BPUT);
        if (is_put) for (long long k = 0; k < n && k < (long long)a.values.size(); k++) write_mem((char *)ub->ptr() + ub->pos[(size_t)k], a.memtype, a.values[(size_t)k]);
        ub->orig = ub->mem;
        std::vector<MPI_Offset> st(a.start.begin(), a.start.end()), ct(a.count.begin(), a.count.end()), sd(a.stride.begin(), a.stride.end()), im(a.imap.begin(), a.imap.end());
        const MPI_Offset *sp = st.empty() ? nullptr : st.data(), *cp = ct.empty() ? nullptr : ct.data(), *sdp = sd.empty() ? nullptr : sd.data(), *imp = im.empty() ? nullptr : im.data();
        if (a.invalid == INV_NULL_START) sp = nullptr;
        int rc;
        sim::set_in_lib(true);
        if (a.form == F_VARN) {
            int num = (int)a.nstart.size();
            std::vector<std::vector<MPI_Offset>> S(num), C(num); std::vector<MPI_Offset *> Sp(num), Cp(num);
            for (int i = 0; i < num; i++) { S[i].assign(a.nstart[i].begin(), a.nstart[i].end()); C[i].assign(a.ncount[i].begin(), a.ncount[i].end()); if (S[i].empty()) S[i].push_back(0); if (C[i].empty()) C[i].push_back(1); Sp[i] = S[i].data(); Cp[i] = C[i].data();
                // a NULL counts[i] means 'one element': used for every other single-element sub-request (and counts == NULL altogether when all are)
                bool ones = true; for (auto x : C[i]) if (x != 1) ones = false; if (ones && ((opi + i) % 2 == 0) && !a.ncount[i].empty()) Cp[i] = nullptr; }
            { bool alln = num > 0; for (int i = 0; i < num; i++) if (Cp[i]) alln = false; if (alln && opi % 3 == 0) Cp.clear(); }
            if (a.flexible) rc = api_varn_flex(kind, op.coll, ncid, varid, num, Sp.data(), Cp.empty() ? nullptr : Cp.data(), ub->ptr(), ub->bufcount, ub->btype, req);
            else rc = api_varn_typed(kind, op.coll, ncid, varid, num, Sp.data(), Cp.empty() ? nullptr : Cp.data(), ub->ptr(), a.memtype, req);
        } else if (a.form == F_VARD) {
            // filetype relative to the variable's begin, etype = the variable's external type
            MPI_Datatype ft = MPI_DATATYPE_NULL; bool own = false;
            nc_type xt; int nd = 0; MPI_Offset recsize = 0; int unlim = -1; ncmpi_inq_varndims(ncid, op.var, &nd); std::vector<int> dimids(nd + 1);
            if (ncmpi_inq_var(ncid, op.var, nullptr, &xt, &nd, dimids.data(), nullptr) != NC_NOERR || xt < NC_BYTE || xt > NC_UINT64) { xt = NC_INT; n = 0; }
            ncmpi_inq_recsize(ncid, &recsize); ncmpi_inq_unlimdim(ncid, &unlim);
            int xs = nc_type_size(xt); bool isrec = nd > 0 && dimids[0] == unlim;
            long long recelems = 1; for (int d = isrec ? 1 : 0; d < nd; d++) { MPI_Offset l; ncmpi_inq_dimlen(ncid, dimids[d], &l); recelems *= l; }
            if (n > 0) {
                std::vector<int> bl((size_t)n, 1); std::vector<MPI_Aint> dp((size_t)n);
                if ((long long)a.elems.size() < n) n = (long long)a.elems.size();
                bl.resize((size_t)n); dp.resize((size_t)n);
                for (long long k = 0; k < n; k++) { long long e = a.elems[(size_t)k]; dp[(size_t)k] = isrec ? (e / recelems) * recsize + (e % recelems) * xs : e * xs; }
                static const MPI_Datatype xmpi[] = {0, MPI_SIGNED_CHAR, MPI_CHAR, MPI_SHORT, MPI_INT, MPI_FLOAT, MPI_DOUBLE, MPI_UNSIGNED_CHAR, MPI_UNSIGNED_SHORT, MPI_UNSIGNED, MPI_LONG_LONG_INT, MPI_UNSIGNED_LONG_LONG};
                MPI_Type_create_hindexed((int)n, bl.data(), dp.data(), xmpi[xt], &ft); MPI_Type_commit(&ft); own = true;
            }
            rc = api_vard(kind, op.coll, ncid, varid, ft, ub->ptr(), ub->bufcount, ub->btype);
            if (own) MPI_Type_free(&ft);
        } else if (use_mvar(op, opi, a, kind, ncid, varid, sp)) {
            // the same request through the multi-variable API: two entries, one of them a zero-length request to the same variable (with unit stride) - by the API's definition
            // (each entry is posted as a nonblocking request, one wait completes them) this is the single-variable call
            int nd = 0; ncmpi_inq_varndims(ncid, varid, &nd);
            std::vector<MPI_Offset> zs((size_t)nd, 0), zc((size_t)nd, 0), zone((size_t)nd, 1);
            int real = (opi % 2 == 0) ? 1 : 0, dummy = 1 - real;
            int vids[2] = {varid, varid}; MPI_Offset *S[2], *C[2], *SD[2], *IM[2]; void *B[2]; MPI_Offset bc[2]; MPI_Datatype bt[2];
            S[real] = st.data(); C[real] = ct.data(); SD[real] = sd.empty() ? zone.data() : sd.data(); IM[real] = im.empty() ? nullptr : im.data(); B[real] = ub->ptr(); bc[real] = ub->bufcount; bt[real] = ub->btype;
            S[dummy] = zs.data(); C[dummy] = zc.data(); SD[dummy] = zone.data(); IM[dummy] = nullptr; B[dummy] = ub->ptr(); bc[dummy] = 0; bt[dummy] = MPI_DATATYPE_NULL;
            bool anyim = IM[real] != nullptr; std::vector<MPI_Offset> dim_im((size_t)nd, 1); if (anyim) IM[dummy] = dim_im.data();
            c.res->probes["mvar_api_calls"]++;
            if (a.flexible) rc = api_m_flex(kind, a.form, op.coll, ncid, 2, vids, S, C, a.form == F_VARA ? nullptr : SD, a.form == F_VARM ? (anyim ? IM : nullptr) : nullptr, B, bc, bt);
            else rc = api_m_typed(kind, a.form, op.coll, ncid, 2, vids, S, C, a.form == F_VARA ? nullptr : SD, a.form == F_VARM ? (anyim ? IM : nullptr) : nullptr, B, a.memtype);
        } else if (a.flexible) rc = api_flex(kind, a.form, op.coll, ncid, varid, sp, cp, sdp, imp, ub->ptr(), ub->bufcount, ub->btype, req);
        else rc = api_typed(kind, a.form, op.coll, ncid, varid, sp, cp, sdp, imp, ub->ptr(), a.memtype, req);
        sim::set_in_lib(false);
        return rc;
    }
    void check_put_buffer(int opi, UserBuf &ub) {
        if (!c.o.check_buffers) return;
        if (ub.mem != ub.orig) {
            size_t i = 0; while (i < ub.mem.size() && ub.mem[i] == ub.orig[i]) i++;
            fail("buffer-modified", opi, "caller's write buffer changed at byte " + std::to_string((long)i - (long)ub.lead) + " of the buffer");
        }
    }
    void check_get_buffer(int opi, Access &a, UserBuf &ub, const MVar *v) {
        // selected positions hold expected values; everything else still holds the canary
        std::vector<uint8_t> touched(ub.mem.size(), 0);
        for (size_t k = 0; k < ub.pos.size(); k++) {
            uint8_t *p = (uint8_t *)ub.ptr() + ub.pos[k];
            for (int b = 0; b < ub.esize; b++) touched[ub.lead + ub.pos[k] + b] = 1;
            if (!c.o.check_data || k >= a.estate.size()) continue;
            bool ovl = (a.estate[k] & 0x10) != 0; int est = a.estate[k] & 0x0f;
            if (est == 0) {
                bool untouched = true; for (int b = 0; b < ub.esize; b++) if (p[b] != 0xA5) untouched = false;
                if (ovl && untouched) fail("read-value", opi, "element #" + std::to_string(k) + " (linear index " + std::to_string(a.elems[k]) + ") was not delivered: buffer untouched; the element is also read by another iget request completed by the same wait (overlapping-iget) [" + acc_str(a) + "]");
                long long got; bool ok = read_mem(p, a.memtype, got);
                if ((!ok || got != a.values[k]) && ovl) fail("read-value", opi, "element #" + std::to_string(k) + " (linear index " + std::to_string(a.elems[k]) + ") was not delivered correctly (got " + std::to_string(got) + ", expected " + std::to_string(a.values[k]) + "); the element is also read by another iget request completed by the same wait (overlapping-iget) [" + acc_str(a) + "]");
                if (!ok || got != a.values[k]) fail("read-value", opi, "element #" + std::to_string(k) + " (linear index " + std::to_string(a.elems[k]) + "): got " + (ok ? std::to_string(got) : std::string("non-integral/garbage")) + " expected " + std::to_string(a.values[k]) + " [" + acc_str(a) + "] buffer=" + hexdump(ub));
            } else if (est == 1 && v) {
                uint8_t want[8]; fill_mem(want, v->type, v->has_fillv, v->fillv);
                if (memcmp(p, want, ub.esize)) fail("read-fill", opi, "element #" + std::to_string(k) + " (linear index " + std::to_string(a.elems[k]) + ") of a fill-mode variable never written does not read as the fill value");
            }
        }
        if (c.o.check_buffers)
            for (size_t i = 0; i < ub.mem.size(); i++) if (!touched[i] && ub.mem[i] != 0xA5) fail("buffer-overrun", opi, "read modified byte " + std::to_string((long)i - (long)ub.lead) + " of the caller's buffer which the request does not select [" + acc_str(a) + "]");
    }

    void do_data(Op &op, int opi) {
        int ncid = me.ncid[op.file]; Access &a = op.acc[r];
        bool is_read = op.kind == OP_GET;
        if (!a.active) {
            if (!op.coll) return;
            // zero-length participation in the collective
            std::vector<MPI_Offset> st(std::max<size_t>(1, c.p->ops[opi].acc[r].start.size()), 0), ct(st.size(), 0);
            // use the variable's rank from the library
            int nd = 0; ncmpi_inq_varndims(ncid, op.var, &nd); st.assign(std::max(nd, 1), 0); ct.assign(std::max(nd, 1), 0);
            int fam = 0; for (auto &x : op.acc) if (x.active) { fam = x.form == F_VARN ? 1 : x.form == F_VARD ? 2 : 0; break; }
            int dummy = 0; sim::set_in_lib(true); int rc;
            if (fam == 0 && use_mvar(op, opi, a, is_read ? K_GET : K_PUT, ncid, op.var, st.data())) {
                int vid = op.var; MPI_Offset *S[1] = {st.data()}, *C[1] = {ct.data()}; void *B[1] = {&dummy}; MPI_Offset bc[1] = {0}; MPI_Datatype bt[1] = {MPI_DATATYPE_NULL};
                rc = api_m_flex(is_read ? K_GET : K_PUT, F_VARA, true, ncid, 1, &vid, S, C, nullptr, nullptr, B, bc, bt);
            } else
            if (fam == 1) rc = is_read ? ncmpi_get_varn_all(ncid, op.var, 0, nullptr, nullptr, &dummy, 0, MPI_INT) : ncmpi_put_varn_all(ncid, op.var, 0, nullptr, nullptr, &dummy, 0, MPI_INT);
            else if (fam == 2) rc = is_read ? ncmpi_get_vard_all(ncid, op.var, MPI_DATATYPE_NULL, &dummy, 0, MPI_INT) : ncmpi_put_vard_all(ncid, op.var, MPI_DATATYPE_NULL, &dummy, 0, MPI_INT);
            else rc = is_read ? ncmpi_get_vara_all(ncid, op.var, st.data(), ct.data(), &dummy, 0, MPI_INT) : ncmpi_put_vara_all(ncid, op.var, st.data(), ct.data(), &dummy, 0, MPI_INT);
            sim::set_in_lib(false);
            rc_check(op, opi, rc, a.exp_rc, a.rc_any); return;   // NC_NOERR unless safe mode shares another rank's error
        }
        std::shared_ptr<UserBuf> ub;
        int rc = issue(op, opi, a, is_read ? K_GET : K_PUT, ncid, ub, nullptr);
        rc_check(op, opi, rc, a.exp_rc, a.rc_any);
        if (!is_read) check_put_buffer(opi, *ub);
        else if (rc == NC_NOERR && a.exp_rc == NC_NOERR) { const MVar *v = nullptr; if (op.snap && op.var >= 0 && op.var < (int)op.snap->vars.size()) v = &op.snap->vars[op.var]; check_get_buffer(opi, a, *ub, v); }
        free_buf(*ub);
    }

    // ---- inquiries
    void do_inq(Op &op, int opi) {
        if (!op.snap) return;
        const MFile &f = *op.snap; int ncid = me.ncid[op.file];
        int nd, nv, ng, ul;
        if (!c.o.check_rc) { sim::set_in_lib(true); int rc0 = ncmpi_inq(ncid, &nd, &nv, &ng, &ul); sim::set_in_lib(false); c.res->rcs[r][opi].rc = rc0; c.res->rcs[r][opi].executed = true; return; }
        sim::set_in_lib(true);
        int rc = ncmpi_inq(ncid, &nd, &nv, &ng, &ul); rc_check(op, opi, rc, NC_NOERR, false);
        if (rc != NC_NOERR) { sim::set_in_lib(false); return; }
        auto bad = [&](const std::string &s) { sim::set_in_lib(false); fail("inq", opi, s); };
        if (nd != (int)f.dims.size() || nv != (int)f.vars.size() || ng != (int)f.gatts.size() || ul != f.unlimdim())
            bad("ncmpi_inq reports ndims=" + std::to_string(nd) + " nvars=" + std::to_string(nv) + " ngatts=" + std::to_string(ng) + " unlimdim=" + std::to_string(ul) + ", model has " + std::to_string(f.dims.size()) + "/" + std::to_string(f.vars.size()) + "/" + std::to_string(f.gatts.size()) + "/" + std::to_string(f.unlimdim()));
        long long numrecs = f.ranks.empty() ? f.numrecs : f.ranks[r].numrecs;
        for (int i = 0; i < nd; i++) {
            char nm[NC_MAX_NAME + 1]; MPI_Offset len; ncmpi_inq_dim(ncid, i, nm, &len);
            if (f.dims[i].name != nm) bad("dimension " + std::to_string(i) + " name '" + nm + "' != model '" + f.dims[i].name + "'");
            long long want = f.dims[i].len == 0 ? numrecs : f.dims[i].len;
            if (f.dims[i].len == 0 && r < (int)op.exp_numrecs_lo.size() && r < (int)op.exp_numrecs_hi.size()) { if (len < op.exp_numrecs_lo[r] || len > op.exp_numrecs_hi[r]) bad("unlimited dimension '" + f.dims[i].name + "' length " + std::to_string(len) + " outside the model's bounds [" + std::to_string(op.exp_numrecs_lo[r]) + "," + std::to_string(op.exp_numrecs_hi[r]) + "]"); }
            else if (len != want) bad("dimension '" + f.dims[i].name + "' length " + std::to_string(len) + " != model " + std::to_string(want));
            int id = -1; ncmpi_inq_dimid(ncid, f.dims[i].name.c_str(), &id); if (id != i) bad("inq_dimid('" + f.dims[i].name + "') = " + std::to_string(id) + " != " + std::to_string(i));
        }
        auto chk_atts = [&](int varid, const std::vector<MAtt> &l, const std::string &ctx) {
            int na = -1; if (varid == NC_GLOBAL) ncmpi_inq_natts(ncid, &na); else ncmpi_inq_varnatts(ncid, varid, &na);
            if (na != (int)l.size()) bad(ctx + ": natts " + std::to_string(na) + " != model " + std::to_string(l.size()));
            for (int i = 0; i < na; i++) {
                char nm[NC_MAX_NAME + 1]; nc_type t; MPI_Offset len;
                ncmpi_inq_attname(ncid, varid, i, nm); if (l[i].name != nm) bad(ctx + ": attribute " + std::to_string(i) + " name '" + nm + "' != model '" + l[i].name + "'");
                ncmpi_inq_att(ncid, varid, nm, &t, &len); if (t != l[i].type || len != (MPI_Offset)l[i].v.size()) bad(ctx + ": attribute '" + l[i].name + "' type/len " + std::to_string(t) + "/" + std::to_string(len) + " != model " + std::to_string(l[i].type) + "/" + std::to_string(l[i].v.size()));
                int id = -1; ncmpi_inq_attid(ncid, varid, nm, &id); if (id != i) bad(ctx + ": inq_attid('" + l[i].name + "') = " + std::to_string(id));
                int mt = native_memtype(t); std::vector<uint8_t> buf((size_t)len * 8 + 8);
                int grc = api_get_att(ncid, varid, nm, buf.data(), mt); if (grc != NC_NOERR && !(grc == NC_ERANGE && l[i].unk >= 0)) bad(ctx + ": get_att('" + l[i].name + "') failed: " + ncmpi_strerrno(grc));
                for (MPI_Offset k = 0; k < len; k++) { long long got; bool ok = read_mem(buf.data() + k * mt_size(mt), mt, got); if (k == l[i].unk) continue; if (!ok || got != l[i].v[(size_t)k]) bad(ctx + ": attribute '" + l[i].name + "' value[" + std::to_string(k) + "] = " + std::to_string(got) + " != model " + std::to_string(l[i].v[(size_t)k])); }
            }
        };
        chk_atts(NC_GLOBAL, f.gatts, "global");
        for (int i = 0; i < nv; i++) {
            char nm[NC_MAX_NAME + 1]; nc_type t; int vnd = 0, na; ncmpi_inq_varndims(ncid, i, &vnd); std::vector<int> dimids(vnd + 1); ncmpi_inq_var(ncid, i, nm, &t, &vnd, dimids.data(), &na);
            const MVar &v = f.vars[i];
            if (v.name != nm) bad("variable " + std::to_string(i) + " name '" + nm + "' != model '" + v.name + "'");
            if (t != v.type || vnd != (int)v.dimids.size()) bad("variable '" + v.name + "' type/rank mismatch");
            for (int d = 0; d < vnd; d++) if (dimids[d] != v.dimids[d]) bad("variable '" + v.name + "' dimid[" + std::to_string(d) + "] mismatch");
            int id = -1; ncmpi_inq_varid(ncid, v.name.c_str(), &id); if (id != i) bad("inq_varid('" + v.name + "') = " + std::to_string(id) + " != " + std::to_string(i));
            chk_atts(i, v.atts, "variable '" + v.name + "'");
            int nofill = -1; ncmpi_inq_var_fill(ncid, i, &nofill, nullptr);
            if (v.fill_known && nofill != (int)v.no_fill) bad("variable '" + v.name + "' inq_var_fill no_fill=" + std::to_string(nofill) + " != model " + std::to_string(v.no_fill));
        }
        sim::set_in_lib(false);
    }

    void barrier(std::vector<int> &arr, int opi, const char *what) {
        arr[opi]++; Ctx *cp = &c; int n = c.n;
        sim::block_until(what, [cp, &arr, opi, n]() { return arr[opi] >= n; });
    }

    void check_files(Op &op, int opi);
    void check_reports(Op &op, int opi);
    void check_hints(const MFile &f, const cdf::File &d, int ncid, int slot, int opi);

    void run_op(int opi) {
        Op &op = c.p->ops[opi];
        if (op.skip) return;
        sim::set_cur_op(opi);
        sim::set_rank_desc("op#" + std::to_string(opi) + " " + op_kind_name[op.kind]);
        sim::ev("op", opi, op.kind);
        int rc;
        auto lib = [&](auto &&fn) { sim::set_in_lib(true); int x = fn(); sim::set_in_lib(false); return x; };
        switch (op.kind) {
        case OP_BARRIER: MPI_Barrier(MPI_COMM_WORLD); break;
        case OP_CHECKPOINT:
            barrier(c.cp_arrived, opi, "checkpoint");
            if (r == 0) {
                if (op.a[0] == 1) { auto ino = sim::g->fs.lookup(op.name); if (ino) c.snaps[op.file] = ino->vis; }
                else if (op.a[0] == 5) { auto ino = sim::g->fs.lookup(op.name); c.snaps[2000 + op.file] = ino ? ino->vis : sim::Image(); }
                else if (op.a[0] == 6 && c.snaps.count(2000 + op.file)) {
                    // C15: the data op just before this checkpoint may only have changed bytes of the elements it addressed (+ the numrecs field)
                    auto ino = sim::g->fs.lookup(op.name); sim::Image now = ino ? ino->vis : sim::Image();
                    auto d = sim::image_diff(c.snaps[2000 + op.file], now);
                    if (!d.empty()) {
                        int k = opi - 1; while (k >= 0 && (c.p->ops[k].skip || c.p->ops[k].kind == OP_CHECKPOINT)) k--;
                        std::vector<std::pair<long long, long long>> allowed; cdf::File hd; bool ok = cdf::decode_header(now, hd);
                        if (ok) allowed.push_back({4, 4 + (hd.version == 5 ? 8 : 4)});
                        // every data op since the snapshot contributes (iput + wait pairs)
                        for (int q = k; q >= 0 && c.p->ops[q].kind != OP_CHECKPOINT; q--) {
                            const Op &dop = c.p->ops[q]; if (dop.skip) continue;
                            if (ok && (dop.kind == OP_PUT || dop.kind == OP_IPUT || dop.kind == OP_BPUT) && dop.var >= 0 && dop.var < (int)hd.vars.size())
                                for (auto &a : dop.acc) if (a.active && a.exp_rc == NC_NOERR) for (auto e : a.elems) { long long off = cdf::elem_offset(hd, hd.vars[dop.var], e); allowed.push_back({off, off + cdf::type_size(hd.vars[dop.var].type)}); }
                        }
                        for (auto &rg : d) for (unsigned long long b = rg.first; b < rg.second; b++) {
                            bool in = false; for (auto &al : allowed) if ((long long)b >= al.first && (long long)b < al.second) { in = true; break; }
                            if (!in) fail("write-outside-target", opi, op.name + ": byte " + std::to_string(b) + " changed although it belongs neither to an element addressed by " + (k >= 0 ? op_to_string(c.p->ops[k]) : std::string("?")) + " nor to the record count");
                        }
                    }
                }
                else if (op.a[0] == 3) { auto ino = sim::g->fs.lookup(op.name); c.snaps[1000 + op.file] = ino ? ino->vis : sim::Image(); }
                else if (op.a[0] == 4 && c.snaps.count(1000 + op.file)) {
                    auto ino = sim::g->fs.lookup(op.name); sim::Image now = ino ? ino->vis : sim::Image();
                    auto d = sim::image_diff(c.snaps[1000 + op.file], now);
                    if (!d.empty() || now.size != c.snaps[1000 + op.file].size) fail("rejected-call-changed-file", opi, op.name + ": a call that returned an error changed the file (" + std::to_string(d.size()) + " byte range(s)" + (d.empty() ? "" : ", first at " + std::to_string(d[0].first)) + ", size " + std::to_string(c.snaps[1000 + op.file].size) + " -> " + std::to_string(now.size) + ")");
                }
                else if (op.a[0] == 2 && c.snaps.count(op.file)) {
                    std::string path; for (size_t k = opi; k-- > 0;) if (c.p->ops[k].kind == OP_ABORT && !c.p->ops[k].skip && c.p->ops[k].file == op.file) { path = c.p->ops[k].name; break; }
                    auto ino = sim::g->fs.lookup(path);
                    if (!ino) fail("abort-restores", opi, "file " + path + " vanished after aborting a redefinition");
                    auto d = sim::image_diff(c.snaps[op.file], ino->vis);
                    if (!d.empty()) fail("abort-restores", opi, path + ": after ncmpi_abort of a redefinition the file differs from its state at ncmpi_redef in " + std::to_string(d.size()) + " byte range(s), first [" + std::to_string(d[0].first) + "," + std::to_string(d[0].second) + "), size " + std::to_string(c.snaps[op.file].size) + " -> " + std::to_string(ino->vis.size));
                }
                if (c.o.check_files && op.msnap) check_files(op, opi); c.cp_done[opi] = 1; }
            else { Ctx *cp = &c; sim::block_until("checkpoint-wait", [cp, opi]() { return cp->cp_done[opi] != 0; }); if (c.o.check_files && op.msnap && op.a[0] == 0) check_reports(op, opi); }
            if (op.a[0] == 0 && c.n > 1) barrier(c.cp_arrived2, opi, "checkpoint-reports");   // nobody moves on while another rank still compares its reports with the file
            break;
        case OP_CREATE: {
            MPI_Info info = make_info(op); int ncid = -1;
            int cmode = NC_CLOBBER | (op.a[0] == 2 ? NC_64BIT_OFFSET : op.a[0] == 5 ? NC_64BIT_DATA : 0);
            if (op.a[1]) cmode = (cmode & ~NC_CLOBBER) | NC_NOCLOBBER;
            rc = lib([&] { return ncmpi_create(me.comm, op.name.c_str(), cmode, info, &ncid); });
            if (info != MPI_INFO_NULL) MPI_Info_free(&info);
            rc_check(op, opi, rc, exp_rc(op), op.rc_any); me.ncid[op.file] = rc == NC_NOERR ? ncid : -1; break;
        }
        case OP_OPEN: {
            MPI_Info info = make_info(op); int ncid = -1;
            rc = lib([&] { return ncmpi_open(me.comm, op.name.c_str(), op.a[0] ? NC_WRITE : NC_NOWRITE, info, &ncid); });
            if (info != MPI_INFO_NULL) MPI_Info_free(&info);
            rc_check(op, opi, rc, exp_rc(op), op.rc_any); me.ncid[op.file] = rc == NC_NOERR ? ncid : -1; break;
        }
        case OP_CLOSE: rc = lib([&] { return ncmpi_close(me.ncid[op.file]); }); rc_check(op, opi, rc, exp_rc(op), op.rc_any); me.closed_ids.push_back(me.ncid[op.file]); me.ncid[op.file] = -1; drop_reqs(op.file); break;
        case OP_ABORT: rc = lib([&] { return ncmpi_abort(me.ncid[op.file]); }); rc_check(op, opi, rc, exp_rc(op), op.rc_any); me.closed_ids.push_back(me.ncid[op.file]); me.ncid[op.file] = -1; drop_reqs(op.file); break;
        case OP_REDEF: rc = lib([&] { return ncmpi_redef(me.ncid[op.file]); }); rc_check(op, opi, rc, exp_rc(op), op.rc_any); break;
        case OP_ENDDEF: rc = lib([&] { return ncmpi_enddef(me.ncid[op.file]); }); rc_check(op, opi, rc, exp_rc(op), op.rc_any); break;
        case OP_ENDDEF2: rc = lib([&] { return ncmpi__enddef(me.ncid[op.file], op.a[0], (op.note == "multidefine" && r == op.alt_rank) ? op.alt_val : op.a[1], op.a[2], op.a[3]); }); rc_check(op, opi, rc, exp_rc(op), op.rc_any); break;
        case OP_BEGIN_INDEP: rc = lib([&] { return ncmpi_begin_indep_data(me.ncid[op.file]); }); rc_check(op, opi, rc, exp_rc(op), op.rc_any); break;
        case OP_END_INDEP: rc = lib([&] { return ncmpi_end_indep_data(me.ncid[op.file]); }); rc_check(op, opi, rc, exp_rc(op), op.rc_any); break;
        case OP_SYNC: rc = lib([&] { return ncmpi_sync(me.ncid[op.file]); }); rc_check(op, opi, rc, exp_rc(op), op.rc_any); break;
        case OP_SYNC_NUMRECS: rc = lib([&] { return ncmpi_sync_numrecs(me.ncid[op.file]); }); rc_check(op, opi, rc, exp_rc(op), op.rc_any); break;
        case OP_FLUSH: rc = lib([&] { return ncmpi_flush(me.ncid[op.file]); }); rc_check(op, opi, rc, exp_rc(op), op.rc_any); break;
        case OP_SYNCPOINT:
            rc = lib([&] { return ncmpi_sync(me.ncid[op.file]); }); rc_check(op, opi, rc, exp_rc(op), op.rc_any);
            MPI_Barrier(MPI_COMM_WORLD);
            rc = lib([&] { return ncmpi_sync(me.ncid[op.file]); }); rc_check(op, opi, rc, exp_rc(op), op.rc_any); break;
        case OP_SET_FILL: { int old; rc = lib([&] { return ncmpi_set_fill(me.ncid[op.file], op.a[0] ? NC_FILL : NC_NOFILL, &old); }); rc_check(op, opi, rc, exp_rc(op), op.rc_any); break; }
        case OP_DEF_DIM: { int id; bool alt = op.note == "multidefine" && r == op.alt_rank; std::string nm = (alt && !op.alt_name.empty()) ? op.alt_name : op.name; long long sz = (alt && op.alt_name.empty()) ? op.alt_val : op.a[0]; rc = lib([&] { return ncmpi_def_dim(me.ncid[op.file], nm.c_str(), sz == 0 ? NC_UNLIMITED : sz, &id); }); rc_check(op, opi, rc, exp_rc(op), op.rc_any); break; }
        case OP_DEF_VAR: {
            int id; std::vector<int> dimids; int ndims_total = 0; ncmpi_inq_ndims(me.ncid[op.file], &ndims_total);
            for (auto d : op.dims) dimids.push_back(ndims_total ? (int)(((d % ndims_total) + ndims_total) % ndims_total) : 0);
            bool alt = op.note == "multidefine" && r == op.alt_rank; std::string nm = (alt && !op.alt_name.empty()) ? op.alt_name : op.name; long long ty = (alt && op.alt_name.empty()) ? op.alt_val : op.a[0];
            rc = lib([&] { return ncmpi_def_var(me.ncid[op.file], nm.c_str(), (nc_type)ty, (int)dimids.size(), dimids.data(), &id); });
            rc_check(op, opi, rc, exp_rc(op), op.rc_any); break;
        }
        case OP_DEF_VAR_FILL: {
            uint8_t fv[8]; const void *fvp = nullptr; nc_type t = NC_INT; ncmpi_inq_vartype(me.ncid[op.file], op.var, &t);
            if (!op.a[0] && op.a[1]) { write_mem(fv, native_memtype(t), op.a[2]); fvp = fv; }
            rc = lib([&] { return ncmpi_def_var_fill(me.ncid[op.file], op.var, (int)op.a[0], fvp); }); rc_check(op, opi, rc, exp_rc(op), op.rc_any); break;
        }
        case OP_FILL_VAR_REC: rc = lib([&] { return ncmpi_fill_var_rec(me.ncid[op.file], op.var, op.a[0] + ((r % 2) ? op.a[1] : 0)); }); rc_check(op, opi, rc, exp_rc(op), op.rc_any); break;
        case OP_PUT_ATT: {
            int mt = native_memtype(op.att.type); std::vector<uint8_t> buf(op.att.v.size() * 8 + 8);
            if (op.a[3] > 0 && !op.att.v.empty()) mt = MT_INT;   // converting form with one out-of-range element (NC_ERANGE expected)
            for (size_t k = 0; k < op.att.v.size(); k++) write_mem(buf.data() + k * mt_size(mt), mt, (op.a[3] > 0 && (long long)k == (op.a[3] - 1) % (long long)op.att.v.size()) ? 70000 : op.att.v[k]);
            if (op.note == "multidefine" && r == op.alt_rank && op.alt_name.empty() && op.att.v.size() >= 2) write_mem(buf.data() + (op.att.v.size() - 1) * mt_size(mt), mt, op.att.v.back() == 1 ? 2 : op.att.v.back() - 1);   // C08 safe mode: this rank passes a different last value
            std::string anm = (op.note == "multidefine" && r == op.alt_rank && !op.alt_name.empty()) ? op.alt_name : op.name;
            rc = lib([&] { return api_put_att(me.ncid[op.file], op.var < 0 ? NC_GLOBAL : op.var, anm.c_str(), op.att.type, (MPI_Offset)op.att.v.size(), buf.data(), mt); });
            rc_check(op, opi, rc, exp_rc(op), op.rc_any); break;
        }
        case OP_DEL_ATT: rc = lib([&] { return ncmpi_del_att(me.ncid[op.file], op.var < 0 ? NC_GLOBAL : op.var, op.name.c_str()); }); rc_check(op, opi, rc, exp_rc(op), op.rc_any); break;
        case OP_COPY_ATT: rc = lib([&] { return ncmpi_copy_att(me.ncid[op.file], op.var < 0 ? NC_GLOBAL : op.var, op.name.c_str(), me.ncid[op.a[0]], op.a[1] < 0 ? NC_GLOBAL : (int)op.a[1]); }); rc_check(op, opi, rc, exp_rc(op), op.rc_any); break;
        case OP_RENAME_ATT: rc = lib([&] { return ncmpi_rename_att(me.ncid[op.file], op.var < 0 ? NC_GLOBAL : op.var, op.name.c_str(), op.name2.c_str()); }); rc_check(op, opi, rc, exp_rc(op), op.rc_any); break;
        case OP_RENAME_DIM: rc = lib([&] { return ncmpi_rename_dim(me.ncid[op.file], op.dim, ((op.note == "multidefine" && r == op.alt_rank) ? op.alt_name : op.name2).c_str()); }); rc_check(op, opi, rc, exp_rc(op), op.rc_any); break;
        case OP_RENAME_VAR: rc = lib([&] { return ncmpi_rename_var(me.ncid[op.file], op.var, ((op.note == "multidefine" && r == op.alt_rank) ? op.alt_name : op.name2).c_str()); }); rc_check(op, opi, rc, exp_rc(op), op.rc_any); break;
        case OP_ATTACH: rc = lib([&] { return ncmpi_buffer_attach(me.ncid[op.file], op.a[0]); }); rc_check(op, opi, rc, exp_rc(op), op.rc_any); break;
        case OP_DETACH: rc = lib([&] { return ncmpi_buffer_detach(me.ncid[op.file]); }); rc_check(op, opi, rc, exp_rc(op), op.rc_any); break;
        case OP_INQ: do_inq(op, opi); break;
        case OP_OPENPROBE: do_openprobe(op, opi); break;
        case OP_MANYFILES: do_manyfiles(op, opi); break;
        case OP_BIGCASE: { c.res->rcs[r][opi].executed = true; run_bigcase(op, r, c.n, [&](const char *k, const std::string &d) { sim::set_in_lib(false); fail(k, opi, d); }); break; }
        case OP_PROBE: {
            int ncid = me.ncid[op.file]; int dummy = 0, v = 0, req = NC_REQ_NULL, stt = 0; MPI_Offset st[16] = {0}, ct[16]; for (auto &x : ct) x = 1; double val = 0;
            rc = lib([&] {
                switch (op.a[0]) {
                case 0: return ncmpi_inq(ncid, &dummy, &dummy, &dummy, &dummy);
                case 17: return ncmpi_inq_varid(ncid, "no_such_variable_zz", &v);
                case 1: return ncmpi_def_dim(ncid, op.name.c_str(), 2, &v);
                case 2: { int seven = 7; return ncmpi_put_att_int(ncid, NC_GLOBAL, op.name.c_str(), NC_INT, 1, &seven); }
                case 15: return ncmpi_set_fill(ncid, op.a[1] ? NC_FILL : NC_NOFILL, &dummy);
                case 4: return ncmpi_get_vara_double_all(ncid, 0, st, ct, &val);
                case 5: return ncmpi_get_vara_double(ncid, 0, st, ct, &val);
                case 6: { val = 1.0; return ncmpi_put_vara_double_all(ncid, 0, st, ct, &val); }
                case 7: { val = 1.0; int r1 = ncmpi_iput_vara_double(ncid, 0, st, ct, &val, &req); if (r1 == NC_NOERR) { int r2 = ncmpi_cancel(ncid, 1, &req, &stt); if (r2 != NC_NOERR) return r2; } return r1; }
                case 8: return ncmpi_wait_all(ncid, NC_REQ_ALL, nullptr, nullptr);
                case 9: return ncmpi_wait(ncid, NC_REQ_ALL, nullptr, nullptr);
                case 10: return ncmpi_cancel(ncid, NC_REQ_ALL, nullptr, nullptr);
                case 11: return ncmpi_sync(ncid);
                case 16: return ncmpi_sync_numrecs(ncid);
                case 21: { val = 1.0; int vid = 0; MPI_Offset *S[1] = {st}, *C[1] = {ct}; double *B[1] = {&val}; return ncmpi_mput_vara_double_all(ncid, 1, &vid, S, C, B); }
                case 22: { int vid = 0; MPI_Offset *S[1] = {st}, *C[1] = {ct}; double *B[1] = {&val}; return ncmpi_mget_vara_double(ncid, 1, &vid, S, C, B); }
                case 20: { int d = -1, v1 = -1; int r1 = ncmpi_def_dim(ncid, (op.name + "_huge").c_str(), (MPI_Offset)1 << 30, &d); if (r1 != NC_NOERR) return r1;
                           r1 = ncmpi_def_var(ncid, (op.name + "_a").c_str(), NC_DOUBLE, 1, &d, &v1); if (r1 != NC_NOERR) return r1;
                           r1 = ncmpi_def_var(ncid, (op.name + "_b").c_str(), NC_DOUBLE, 1, &d, &v1); if (r1 != NC_NOERR) return r1;
                           return ncmpi_enddef(ncid); }
                case 14: { int r1 = ncmpi_buffer_attach(ncid, 64); if (r1 != NC_NOERR) return r1; return ncmpi_buffer_detach(ncid); }
                default: return NC_NOERR;
                }
            });
            rc_check(op, opi, rc, exp_rc(op), op.rc_any);
            { int nr = -1; if (ncmpi_inq_nreqs(ncid, &nr) == NC_NOERR && nr != 0) fail("pending-after-probe", opi, "the call left " + std::to_string(nr) + " nonblocking request(s) pending (every probe call is complete - or rejected - when it returns)"); }
            break;
        }
        case OP_BADID: {
            int id;
            std::vector<int> open_ids; for (int x : me.ncid) if (x >= 0) open_ids.push_back(x);
            auto is_open = [&](int x) { return std::find(open_ids.begin(), open_ids.end(), x) != open_ids.end(); };
            switch (op.a[0] % 4) {
            case 0: { id = -1; for (int x : me.closed_ids) if (!is_open(x)) id = x; if (id < 0) id = -7; break; }   // stale id of a closed file
            case 1: id = -1 - (int)(op.a[2] % 5); break;
            case 2: id = op.a[2] % 2 ? 1000000 : NC_MAX_NFILES + (int)(op.a[2] % 3); break;
            default: { id = -3; for (int x = 0; x < 64; x++) if (!is_open(x)) { id = x; break; } break; }                 // in-range slot that is not open
            }
            int dummy = 0, v = 0; MPI_Offset st[8] = {0, 0, 0, 0, 0, 0, 0, 0}, ct[8] = {1, 1, 1, 1, 1, 1, 1, 1}; int req = NC_REQ_NULL, stt = 0;
            rc = lib([&] {
                switch (op.a[1] % 16) {
                case 0: return ncmpi_inq(id, &dummy, &dummy, &dummy, &dummy);
                case 1: return ncmpi_redef(id);
                case 2: return ncmpi_enddef(id);
                case 3: return ncmpi_sync(id);
                case 4: return ncmpi_close(id);
                case 5: return ncmpi_abort(id);
                case 6: return ncmpi_inq_varid(id, "v0", &v);
                case 7: return ncmpi_put_var1_int(id, 0, st, &dummy);
                case 8: return ncmpi_get_vara_int_all(id, 0, st, ct, &dummy);
                case 9: return ncmpi_wait_all(id, 1, &req, &stt);
                case 10: return ncmpi_begin_indep_data(id);
                case 11: return ncmpi_def_dim(id, "zz", 3, &v);
                case 12: return ncmpi_put_att_int(id, NC_GLOBAL, "zz", NC_INT, 1, &dummy);
                case 13: return ncmpi_iput_var1_int(id, 0, st, &dummy, &req);
                case 14: return ncmpi_buffer_attach(id, 100);
                default: return ncmpi_inq_unlimdim(id, &v);
                }
            });
            rc_check(op, opi, rc, NC_EBADID, false); break;
        }
        case OP_PUT: case OP_GET: do_data(op, opi); break;
        case OP_IPUT: case OP_IGET: case OP_BPUT: do_post(op, opi); break;
        case OP_WAIT: do_wait(op, opi, false); break;
        case OP_CANCEL: do_wait(op, opi, true); break;
        default: break;
        }
        post_checks(op, opi);
    }
    void post_checks(Op &op, int opi) {
        if (op.skip || op.file < 0 || op.file >= (int)me.ncid.size() || me.ncid[op.file] < 0 || !c.o.check_rc) return;
        int ncid = me.ncid[op.file];
        if (!op.exp_numrecs_lo.empty() && r < (int)op.exp_numrecs_lo.size()) {
            int ul = -1; MPI_Offset len = -1;
            if (ncmpi_inq_unlimdim(ncid, &ul) == NC_NOERR && ul >= 0 && ncmpi_inq_dimlen(ncid, ul, &len) == NC_NOERR) {
                if (len < op.exp_numrecs_lo[r] || len > op.exp_numrecs_hi[r])
                    fail("numrecs", opi, "reports " + std::to_string((long long)len) + " records after the call, model expects " + (op.exp_numrecs_lo[r] == op.exp_numrecs_hi[r] ? std::to_string(op.exp_numrecs_lo[r]) : "[" + std::to_string(op.exp_numrecs_lo[r]) + ".." + std::to_string(op.exp_numrecs_hi[r]) + "]"));
            }
        }
        if (!op.exp_nreqs.empty() && r < (int)op.exp_nreqs.size() && op.exp_nreqs[r] >= 0) {
            int n = -1; if (ncmpi_inq_nreqs(ncid, &n) == NC_NOERR && n != op.exp_nreqs[r]) fail("nreqs", opi, "ncmpi_inq_nreqs reports " + std::to_string(n) + " pending requests, model has " + std::to_string(op.exp_nreqs[r]));
            if (c.o.check_usage && op.exp_usage[r] >= 0) { MPI_Offset u = -1; if (ncmpi_inq_buffer_usage(ncid, &u) == NC_NOERR && u != op.exp_usage[r]) fail("abuf-usage", opi, "ncmpi_inq_buffer_usage reports " + std::to_string((long long)u) + " bytes, pending buffered puts hold " + std::to_string(op.exp_usage[r]) + ((r < (int)op.exp_usage_tail.size() && u == op.exp_usage_tail[r]) ? " (tail-only-reclaim: the excess is exactly the space of completed/cancelled entries allocated before a still pending one)" : "")); }
        }
    }
    // open an arbitrary byte image; if the library accepts it, its metadata must be self-consistent and bounded reads must terminate (C19)
    // C17: the table of open files.  a[0] files are created, a[1] of them closed again in an order given by a[2] (0 oldest first, 1 every other one, 2 newest first),
    // then files are created until the library refuses; every id must be valid and distinct, exactly NC_MAX_NFILES files can be open at once, the next create
    // returns NC_ENFILE, and everything closes cleanly (the leak oracle runs at the end of the program)
    void do_manyfiles(Op &op, int opi) {
        c.res->rcs[r][opi].executed = true;
        std::vector<int> ids; std::vector<char> used(NC_MAX_NFILES + 8, 0); int serial = 0;
        auto create1 = [&](int &id) { std::string path = "/sim/many" + std::to_string(serial++) + ".nc"; id = -12345; sim::set_in_lib(true); int rc = ncmpi_create(MPI_COMM_WORLD, path.c_str(), NC_CLOBBER, MPI_INFO_NULL, &id); sim::set_in_lib(false); return rc; };
        auto close1 = [&](int id) { sim::set_in_lib(true); int rc = ncmpi_close(id); sim::set_in_lib(false); if (rc != NC_NOERR) fail("manyfiles", opi, "ncmpi_close(" + std::to_string(id) + ") returned " + ncmpi_strerrno(rc)); if (id >= 0 && id < (int)used.size()) used[id] = 0; };
        auto take = [&](int id, int rc, const char *phase) {
            if (rc != NC_NOERR) { fail("manyfiles", opi, std::string(phase) + ": ncmpi_create #" + std::to_string(serial) + " failed with " + ncmpi_strerrno(rc) + " while only " + std::to_string(ids.size()) + " files are open"); return false; }
            if (id < 0 || id >= NC_MAX_NFILES) { fail("manyfiles", opi, std::string(phase) + ": ncmpi_create returned NC_NOERR but the id is " + std::to_string(id)); return false; }
            if (used[id]) { fail("manyfiles", opi, std::string(phase) + ": ncmpi_create returned id " + std::to_string(id) + " which is still open"); return false; }
            used[id] = 1; ids.push_back(id); return true; };
        long long n1 = std::min<long long>(std::max<long long>(op.a[0], 1), NC_MAX_NFILES), n2 = std::min<long long>(std::max<long long>(op.a[1], 0), n1); bool ok = true;
        for (long long i = 0; i < n1 && ok; i++) { int id; int rc = create1(id); ok = take(id, rc, "phase 1"); }
        if (ok) {
            std::vector<int> keep, drop;
            for (size_t i = 0; i < ids.size(); i++) { bool d = op.a[2] == 0 ? (long long)i < n2 : op.a[2] == 1 ? (i % 2 == 0 && (long long)drop.size() < n2) : (long long)i >= (long long)ids.size() - n2; (d ? drop : keep).push_back(ids[i]); }
            for (int id : drop) close1(id);
            ids = keep;
            while (ok && (int)ids.size() < NC_MAX_NFILES) { int id; int rc = create1(id); ok = take(id, rc, "phase 2"); }
            if (ok) { int id; int rc = create1(id); if (rc != NC_ENFILE) { fail("manyfiles", opi, "with NC_MAX_NFILES files open ncmpi_create returned " + std::string(ncmpi_strerrno(rc)) + " instead of NC_ENFILE"); if (rc == NC_NOERR) { sim::set_in_lib(true); ncmpi_close(id); sim::set_in_lib(false); } } }
        }
        for (int id : ids) close1(id);
    }
    void do_openprobe(Op &op, int opi) {
        int ncid = -1;
        sim::set_in_lib(true);
        int rc = ncmpi_open(MPI_COMM_WORLD, op.name.c_str(), NC_NOWRITE, MPI_INFO_NULL, &ncid);
        sim::set_in_lib(false);
        c.res->rcs[r][opi].rc = rc; c.res->rcs[r][opi].executed = true;
        if (rc != NC_NOERR && rc != NC_ENULLPAD) {
            const char *s = ncmpi_strerrno(rc);
            if (rc > 0 || !s || !strncmp(s, "Unknown", 7)) fail("open-garbage-rc", opi, "ncmpi_open of a malformed file returned " + std::to_string(rc) + ", which is not a netCDF error code");
            return;
        }
        auto bad = [&](const std::string &d) { sim::set_in_lib(false); fail("inconsistent-metadata", opi, "ncmpi_open accepted the file but " + d); };
        sim::set_in_lib(true);
        int nd = -1, nv = -1, ng = -1, ul = -2;
        if (ncmpi_inq(ncid, &nd, &nv, &ng, &ul) != NC_NOERR || nd < 0 || nv < 0 || ng < 0 || ul < -1 || ul >= std::max(nd, 1)) bad("ncmpi_inq fails or reports ndims=" + std::to_string(nd) + " nvars=" + std::to_string(nv) + " ngatts=" + std::to_string(ng) + " unlimdim=" + std::to_string(ul));
        if (nd > 100000 || nv > 100000 || ng > 100000) { sim::set_in_lib(false); ncmpi_close(ncid); return; }
        std::vector<MPI_Offset> dimlen(nd);
        for (int i = 0; i < nd; i++) { char nm[NC_MAX_NAME + 1]; if (ncmpi_inq_dim(ncid, i, nm, &dimlen[i]) != NC_NOERR || dimlen[i] < 0) bad("ncmpi_inq_dim(" + std::to_string(i) + ") fails or reports a negative length"); int id = -1; if (ncmpi_inq_dimid(ncid, nm, &id) != NC_NOERR) bad("dimension " + std::to_string(i) + " cannot be found by its own name"); }
        for (int i = 0; i < ng; i++) { char nm[NC_MAX_NAME + 1]; nc_type t; MPI_Offset len; if (ncmpi_inq_attname(ncid, NC_GLOBAL, i, nm) != NC_NOERR || ncmpi_inq_att(ncid, NC_GLOBAL, nm, &t, &len) != NC_NOERR || len < 0) bad("global attribute " + std::to_string(i) + " cannot be inquired");
            if (len <= 4096) { std::vector<double> b((size_t)len + 1); if (t == NC_CHAR) ncmpi_get_att_text(ncid, NC_GLOBAL, nm, (char *)b.data()); else ncmpi_get_att_double(ncid, NC_GLOBAL, nm, b.data()); } }
        for (int i = 0; i < nv; i++) {
            char nm[NC_MAX_NAME + 1]; nc_type t; int vnd = -1, na = -1;
            if (ncmpi_inq_varndims(ncid, i, &vnd) != NC_NOERR || vnd < 0 || vnd > 1024) bad("variable " + std::to_string(i) + " has an unusable rank");
            std::vector<int> dimids(vnd + 1);
            if (ncmpi_inq_var(ncid, i, nm, &t, &vnd, dimids.data(), &na) != NC_NOERR || t < NC_BYTE || t > NC_UINT64 || na < 0) bad("variable " + std::to_string(i) + " cannot be inquired or has an invalid type");
            for (int d = 0; d < vnd; d++) if (dimids[d] < 0 || dimids[d] >= nd) bad("variable '" + std::string(nm) + "' refers to dimension id " + std::to_string(dimids[d]) + " but the file has " + std::to_string(nd) + " dimensions");
            MPI_Offset off = -1; if (ncmpi_inq_varoffset(ncid, i, &off) != NC_NOERR || off < 0) bad("variable '" + std::string(nm) + "' has a negative offset");
            // bounded read: the first element(s) of the variable, collectively
            std::vector<MPI_Offset> st(std::max(vnd, 1), 0), ct(std::max(vnd, 1), 1); bool empty = false;
            for (int d = 0; d < vnd; d++) { MPI_Offset len = dimlen[dimids[d]]; if (dimids[d] == ul) ncmpi_inq_dimlen(ncid, ul, &len); if (len <= 0) empty = true; ct[d] = (d == vnd - 1) ? std::min<MPI_Offset>(len, 4) : 1; }
            if (empty) for (auto &x : ct) x = 0;
            std::vector<double> buf(8, 0);
            if (t == NC_CHAR) ncmpi_get_vara_text_all(ncid, i, st.data(), ct.data(), (char *)buf.data()); else ncmpi_get_vara_double_all(ncid, i, st.data(), ct.data(), buf.data());
        }
        {   // no two variables may share file space (fixed: [begin, begin+size), record: [begin, begin+size of one record) inside the record)
            struct Ext { long long lo, hi; bool rec; std::string nm; }; std::vector<Ext> ex;
            for (int i = 0; i < nv && nv <= 2000; i++) {
                char nm[NC_MAX_NAME + 1]; nc_type t; int vnd = 0; if (ncmpi_inq_varndims(ncid, i, &vnd) != NC_NOERR || vnd < 0 || vnd > 1024) continue; std::vector<int> dimids(vnd + 1);
                if (ncmpi_inq_var(ncid, i, nm, &t, &vnd, dimids.data(), nullptr) != NC_NOERR || t < NC_BYTE || t > NC_UINT64) continue;
                MPI_Offset off = -1; if (ncmpi_inq_varoffset(ncid, i, &off) != NC_NOERR || off < 0) continue;
                long double sz = nc_type_size(t); bool rec = vnd > 0 && dimids[0] == ul; bool okd = true; for (int d = rec ? 1 : 0; d < vnd; d++) { if (dimids[d] < 0 || dimids[d] >= nd) { okd = false; break; } sz *= (long double)dimlen[dimids[d]]; }
                if (!okd || sz <= 0 || sz > 9e18L) continue;
                ex.push_back({(long long)off, (long long)off + (long long)sz, rec, nm});
            }
            for (size_t a = 0; a < ex.size(); a++) for (size_t b2 = a + 1; b2 < ex.size(); b2++) if (ex[a].rec == ex[b2].rec && ex[a].lo < ex[b2].hi && ex[b2].lo < ex[a].hi) { bad("variables '" + ex[a].nm + "' [" + std::to_string(ex[a].lo) + "," + std::to_string(ex[a].hi) + ") and '" + ex[b2].nm + "' [" + std::to_string(ex[b2].lo) + "," + std::to_string(ex[b2].hi) + ") share file space"); a = ex.size(); break; }
        }
        ncmpi_close(ncid);
        sim::set_in_lib(false);
    }
    void drop_reqs(int file) { for (auto &q : me.reqs[file]) { if (q.ub) free_buf(*q.ub); q = PendingReq(); } }
    void do_post(Op &op, int opi);
    void do_wait(Op &op, int opi, bool cancel);
};

void Exec::do_post(Op &op, int opi) {
    Access &a = op.acc[r]; if (!a.active) return;
    int ncid = me.ncid[op.file];
    int kind = op.kind == OP_IPUT ? K_IPUT : op.kind == OP_IGET ? K_IGET : K_BPUT;
    std::shared_ptr<UserBuf> ub; int req = NC_REQ_NULL;
    int rc = issue(op, opi, a, kind, ncid, ub, &req);
    if (kind == K_BPUT && a.tail_hazard && rc == NC_EINSUFFBUF && a.exp_rc == NC_NOERR && c.o.check_rc) { free_buf(*ub); fail("rc", opi, "returned NC_EINSUFFBUF expected NC_NOERR (tail-only-reclaim: the attached buffer has enough free bytes, but they lie below a still pending entry)"); return; }
    rc_check(op, opi, rc, a.exp_rc, a.rc_any);
    if ((rc != NC_NOERR && !(rc == NC_ERANGE && a.exp_rc == NC_ERANGE)) || a.reqslot < 0) { free_buf(*ub); return; }   // (NC_ERANGE is not fatal: the request is posted)
    auto &tab = me.reqs[op.file]; if ((int)tab.size() <= a.reqslot) tab.resize(a.reqslot + 1);
    PendingReq q; q.live = true; q.kind = kind; q.reqid = req; q.ub = ub; q.acc = &a; q.var = op.var; q.opidx = opi; q.file = op.file;
    if (kind == K_BPUT) { // data is captured at posting time: the caller may reuse the buffer at once
        if (c.o.check_buffers) check_put_buffer(opi, *ub);
        memset(ub->ptr(), 0x5A, ub->mem.size() - 2 * ub->lead); ub->orig = ub->mem;
    }
    tab[a.reqslot] = q;
}
void Exec::do_wait(Op &op, int opi, bool cancel) {
    WaitSpec &w = op.waits[r]; int ncid = me.ncid[op.file];
    if (!w.active) { if (!op.coll || cancel) return; }
    auto &tab = me.reqs[op.file];
    std::vector<int> ids, st; int num = 0; int *idp = nullptr, *stp = nullptr;
    if (!w.active) { num = 0; }
    else if (w.mode == 0 || w.mode == 4) {
        for (int s : w.slots) { if (s == -1) ids.push_back(NC_REQ_NULL); else if (s == -2) ids.push_back(0x7ffffff0); else ids.push_back(s < (int)tab.size() && tab[s].live ? tab[s].reqid : NC_REQ_NULL); }
        num = (int)ids.size(); st.assign(num, 12345); idp = ids.data(); stp = w.nostatus ? nullptr : st.data();
    } else num = w.mode == 1 ? NC_REQ_ALL : w.mode == 2 ? NC_GET_REQ_ALL : NC_PUT_REQ_ALL;
    sim::set_in_lib(true);
    int rc = cancel ? ncmpi_cancel(ncid, num, idp, stp) : op.coll ? ncmpi_wait_all(ncid, num, idp, stp) : ncmpi_wait(ncid, num, idp, stp);
    sim::set_in_lib(false);
    rc_check(op, opi, rc, w.exp_rc, cancel && w.exp_rc != NC_NOERR);
    c.res->rcs[r][opi].statuses = st;
    if (w.exp_rc != NC_NOERR) return;
    if (!w.active) return;
    // which slots completed
    std::vector<int> done;
    if (w.mode == 0 || w.mode == 4) { for (int s : w.slots) if (s >= 0 && s < (int)tab.size() && tab[s].live) done.push_back(s); }
    else for (int s = 0; s < (int)tab.size(); s++) if (tab[s].live && (w.mode == 1 || (w.mode == 2 && tab[s].kind == K_IGET) || (w.mode == 3 && tab[s].kind != K_IGET))) done.push_back(s);
    if ((w.mode == 0 || w.mode == 4) && c.o.check_rc) {
        for (size_t i = 0; i < w.slots.size(); i++) {
            if (!w.nostatus && i < w.exp_status.size() && st[i] != w.exp_status[i] && !(w.exp_status[i] == 12346 && (st[i] == NC_NOERR || st[i] == NC_ERANGE))) fail("req-status", opi, "status[" + std::to_string(i) + "] = " + ncmpi_strerrno(st[i]) + " expected " + ncmpi_strerrno(w.exp_status[i]));
            int s = w.slots[i];
            if (s >= 0 && s < (int)tab.size() && tab[s].live && ids[i] != NC_REQ_NULL) fail("req-id-not-reset", opi, "request id at position " + std::to_string(i) + " was not reset to NC_REQ_NULL");
        }
    }
    std::sort(done.begin(), done.end()); done.erase(std::unique(done.begin(), done.end()), done.end());
    for (int s : done) {
        PendingReq &q = tab[s];
        if (rc == NC_NOERR) {   // (a wait that failed, e.g. after an injected fault, has not completed the request: its buffer may still be byte-swapped in place)
            if (q.kind == K_IGET && !cancel) { const MVar *v = nullptr; Op &pop = c.p->ops[q.opidx]; if (pop.snap && q.var < (int)pop.snap->vars.size()) v = &pop.snap->vars[q.var]; if (rc == NC_NOERR) check_get_buffer(q.opidx, *q.acc, *q.ub, v); }
            else if (q.kind != K_IGET) check_put_buffer(q.opidx, *q.ub);
        }
        free_buf(*q.ub); q = PendingReq();
    }
}

// every rank's own reports of header size / extent, record size and variable offsets must equal what is in the file (rank 0 does this inside check_files)
void Exec::check_reports(Op &op, int opi) {
    const Model &m = *op.msnap;
    for (size_t k = 0; k < m.files.size(); k++) {
        const MFile &f = m.files[k]; if (!f.open || f.mode == FM_DEFINE) continue;
        int ncid = me.ncid[k]; if (ncid < 0) continue;
        auto ino = sim::g->fs.lookup(f.path); if (!ino) continue;
        cdf::File d; if (!cdf::decode_header(ino->vis, d)) continue;   // reported by rank 0
        MPI_Offset hs = -1, he = -1, rs = -1; ncmpi_inq_header_size(ncid, &hs); ncmpi_inq_header_extent(ncid, &he); ncmpi_inq_recsize(ncid, &rs);
        if (hs != d.header_len) fail("report-header-size", opi, f.path + ": ncmpi_inq_header_size = " + std::to_string((long long)hs) + " on rank " + std::to_string(r) + " but the header in the file is " + std::to_string(d.header_len) + " bytes");
        long long first = -1; for (auto &dv : d.vars) if (first < 0 || dv.begin < first) first = dv.begin;
        if (first >= 0 && he != first) fail("report-header-extent", opi, f.path + ": ncmpi_inq_header_extent = " + std::to_string((long long)he) + " on rank " + std::to_string(r) + " but the first variable begins at " + std::to_string(first));
        bool anyrec = false; for (auto &dv : d.vars) anyrec = anyrec || dv.isrec;
        if (anyrec && rs != d.recsize) fail("report-recsize", opi, f.path + ": ncmpi_inq_recsize = " + std::to_string((long long)rs) + " on rank " + std::to_string(r) + " but the record size by the format rule is " + std::to_string(d.recsize));
        for (size_t i = 0; i < d.vars.size(); i++) { MPI_Offset off = -1; ncmpi_inq_varoffset(ncid, (int)i, &off); if (off != d.vars[i].begin) fail("report-varoffset", opi, f.path + ": ncmpi_inq_varoffset('" + d.vars[i].name + "') = " + std::to_string((long long)off) + " on rank " + std::to_string(r) + " but begin in the file is " + std::to_string(d.vars[i].begin)); }
    }
}

// ---- raw-image oracles (run by rank 0 while every rank is parked at the checkpoint)
// effective hints (C10): what ncmpi_inq_file_info reports must be the user's setting (environment form wins over the MPI_Info form) and must be
// what the layout of a freshly created file shows.  Precedence of the alignment settings as documented at ncmpio__enddef().
void Exec::check_hints(const MFile &f, const cdf::File &d, int ncid, int slot, int opi) {
    std::map<std::string, std::string> user;
    for (int i = opi - 1; i >= 0; i--) { const Op &o = c.p->ops[i]; if (!o.skip && o.kind == OP_CREATE && o.file == slot) { user = o.hints; break; } }
    { auto e = c.p->cfg.sim.env.find("PNETCDF_HINTS"); if (e != c.p->cfg.sim.env.end()) { std::string h = e->second; size_t pos = 0; while (pos < h.size()) { size_t sc = h.find(';', pos); if (sc == std::string::npos) sc = h.size(); std::string kv = h.substr(pos, sc - pos); size_t eq = kv.find('='); if (eq != std::string::npos) user[kv.substr(0, eq)] = kv.substr(eq + 1); pos = sc + 1; } } }
    MPI_Info info = MPI_INFO_NULL; int rc = ncmpi_inq_file_info(ncid, &info);
    if (rc != NC_NOERR || info == MPI_INFO_NULL) { fail("hint-report", opi, f.path + ": ncmpi_inq_file_info failed: " + std::to_string(rc)); return; }
    auto rep = [&](const char *k, std::string &out) { char v[MPI_MAX_INFO_VAL + 1]; int flag = 0; MPI_Info_get(info, k, MPI_MAX_INFO_VAL, v, &flag); if (flag) out = v; return flag != 0; };
    auto uval = [&](const char *k) -> long long { auto it = user.find(k); if (it == user.end()) return 0; long long x = atoll(it->second.c_str()); return x > 0 ? x : 0; };
    auto rnd4 = [](long long x) { return (x + 3) / 4 * 4; };
    bool anyfix = false, anyrec = false; long long first_fix = -1, begin_rec = -1, end_fix = d.header_len;
    for (auto &v : d.vars) { if (v.isrec) { anyrec = true; if (begin_rec < 0 || v.begin < begin_rec) begin_rec = v.begin; } else { anyfix = true; if (first_fix < 0 || v.begin < first_fix) first_fix = v.begin; end_fix = std::max(end_fix, v.begin + (v.nelems_per_rec * cdf::type_size(v.type) + 3) / 4 * 4); } }
    long long Uh = uval("nc_header_align_size"), Uv = uval("nc_var_align_size"), Ur = uval("nc_record_align_size");
    // header alignment: an explicit setting (hint nc_header_align_size, else hint nc_var_align_size, else the v_align argument) must be the one in force;
    // without any, the library may choose (512 by default, or the record alignment when there is no fixed-size variable): then the reported value only has to be honoured by the layout
    long long expH = Uh ? Uh : Uv ? Uv : f.ed[1] > 0 ? f.ed[1] : 0;
    long long expR = Ur ? Ur : f.ed[3] > 0 ? f.ed[3] : 4;
    expH = rnd4(expH); expR = rnd4(expR);
    std::string s;
    long long H = rep("nc_header_align_size", s) ? atoll(s.c_str()) : -1, R = rep("nc_record_align_size", s) ? atoll(s.c_str()) : -1;
    if (expH == 0) { if (H < 4 || H % 4) fail("hint-report", opi, f.path + ": nc_header_align_size reported " + std::to_string(H)); expH = std::max<long long>(H, 4); }
    if (H != expH) fail("hint-report", opi, f.path + ": nc_header_align_size reported " + std::to_string(H) + ", the settings dictate " + std::to_string(expH));
    if (R != expR) fail("hint-report", opi, f.path + ": nc_record_align_size reported " + std::to_string(R) + ", the settings dictate " + std::to_string(expR));
    if (anyfix && first_fix % expH) fail("hint-layout", opi, f.path + ": the first fixed-size variable begins at " + std::to_string(first_fix) + ", not a multiple of the header alignment " + std::to_string(expH) + " in force");
    if (anyrec && begin_rec % expR) fail("hint-layout", opi, f.path + ": the record section begins at " + std::to_string(begin_rec) + ", not a multiple of the record alignment " + std::to_string(expR) + " in force");
    if (anyfix && first_fix < d.header_len + f.ed[0]) fail("hint-layout", opi, f.path + ": header free space " + std::to_string(first_fix - d.header_len) + " < requested h_minfree " + std::to_string(f.ed[0]));
    if (anyrec && begin_rec < end_fix + f.ed[2]) fail("hint-layout", opi, f.path + ": free space before the record section " + std::to_string(begin_rec - end_fix) + " < requested v_minfree " + std::to_string(f.ed[2]));
    // value hints: reported == set (valid values only are generated)
    for (const char *k : {"nc_in_place_swap", "nc_ibuf_size", "nc_hash_size_dim", "nc_hash_size_var", "nc_hash_size_gattr", "nc_hash_size_vattr", "nc_num_aggrs_per_node"}) {
        auto it = user.find(k); if (it == user.end()) continue;
        if (!rep(k, s)) { fail("hint-report", opi, f.path + ": hint " + k + " was set but is not reported"); continue; }
        if (s != it->second) fail("hint-report", opi, f.path + ": hint " + std::string(k) + " was set to '" + it->second + "' but '" + s + "' is reported");
    }
    MPI_Info_free(&info);
}

void Exec::check_files(Op &op, int opi) {
    const Model &m = *op.msnap;
    auto check_one = [&](const MFile &f, bool open) {
        if (open && f.mode == FM_DEFINE) return;        // header not (re)written yet
        auto ino = sim::g->fs.lookup(f.path);
        if (!ino) { fail("file-missing", opi, "file " + f.path + " should exist"); return; }
        const sim::Image &img = open ? ino->vis : ino->durable;
        cdf::File d;
        if (!cdf::decode_header(img, d)) { std::string s; for (auto &p : d.problems) s += p + "; "; fail("format", opi, f.path + ": header does not decode strictly: " + s); }
        if (d.version != f.format) fail("format", opi, f.path + ": version byte " + std::to_string(d.version) + " != requested CDF-" + std::to_string(f.format));
        if (c.o.layout_strict) { std::vector<std::string> pr; cdf::check_layout(d, img.size, pr); if (!pr.empty()) { std::string s; for (auto &p : pr) s += p + "; "; fail("layout", opi, f.path + ": " + s); } }
        // the library's own reports must equal what is in the file
        if (open) {
            int slot = -1; for (size_t k = 0; k < m.files.size(); k++) if (m.files[k].open && m.files[k].path == f.path) slot = (int)k;
            int ncid = slot >= 0 ? me.ncid[slot] : -1;
            if (ncid >= 0) {
                MPI_Offset hs = -1, he = -1, rs = -1;
                ncmpi_inq_header_size(ncid, &hs); ncmpi_inq_header_extent(ncid, &he); ncmpi_inq_recsize(ncid, &rs);
                if (hs != d.header_len) fail("report-header-size", opi, f.path + ": ncmpi_inq_header_size = " + std::to_string((long long)hs) + " but the header in the file is " + std::to_string(d.header_len) + " bytes");
                long long first = -1; for (auto &dv : d.vars) if (first < 0 || dv.begin < first) first = dv.begin;
                if (first >= 0 && he != first) fail("report-header-extent", opi, f.path + ": ncmpi_inq_header_extent = " + std::to_string((long long)he) + " but the first variable begins at " + std::to_string(first));
                if (first < 0 && he < d.header_len) fail("report-header-extent", opi, f.path + ": header extent smaller than header");
                bool anyrec = false; for (auto &dv : d.vars) anyrec = anyrec || dv.isrec;
                if (anyrec && rs != d.recsize) fail("report-recsize", opi, f.path + ": ncmpi_inq_recsize = " + std::to_string((long long)rs) + " but the record size by the format rule is " + std::to_string(d.recsize));
                if (c.o.check_hints && f.first_layout) check_hints(f, d, ncid, slot, opi);
                for (size_t i = 0; i < d.vars.size(); i++) { MPI_Offset off = -1; ncmpi_inq_varoffset(ncid, (int)i, &off); if (off != d.vars[i].begin) fail("report-varoffset", opi, f.path + ": ncmpi_inq_varoffset('" + d.vars[i].name + "') = " + std::to_string((long long)off) + " but begin in the file is " + std::to_string(d.vars[i].begin)); }
            }
        }
        // schema
        if (d.dims.size() != f.dims.size()) fail("file-schema", opi, f.path + ": " + std::to_string(d.dims.size()) + " dimensions in file, model has " + std::to_string(f.dims.size()));
        for (size_t i = 0; i < f.dims.size(); i++) if (d.dims[i].name != f.dims[i].name || d.dims[i].len != f.dims[i].len) fail("file-schema", opi, f.path + ": dimension " + std::to_string(i) + " is (" + d.dims[i].name + "," + std::to_string(d.dims[i].len) + ") in file, model has (" + f.dims[i].name + "," + std::to_string(f.dims[i].len) + ")");
        auto cmp_atts = [&](const std::vector<cdf::Att> &da, const std::vector<MAtt> &ma, const std::string &ctx) {
            if (da.size() != ma.size()) fail("file-schema", opi, f.path + " " + ctx + ": " + std::to_string(da.size()) + " attributes in file, model has " + std::to_string(ma.size()));
            for (size_t i = 0; i < ma.size(); i++) {
                if (da[i].name != ma[i].name || da[i].type != ma[i].type || da[i].nelems != (long long)ma[i].v.size()) fail("file-schema", opi, f.path + " " + ctx + ": attribute " + std::to_string(i) + " '" + da[i].name + "' differs from model '" + ma[i].name + "'");
                for (size_t k = 0; k < ma[i].v.size(); k++) { if ((int)k == ma[i].unk) continue; double dv; long long iv = cdf::att_int(da[i], (long long)k, &dv); if (iv != ma[i].v[k] || dv != (double)ma[i].v[k]) fail("file-schema", opi, f.path + " " + ctx + ": attribute '" + ma[i].name + "' value[" + std::to_string(k) + "] in file is " + std::to_string(iv) + ", model has " + std::to_string(ma[i].v[k])); }
            }
        };
        cmp_atts(d.gatts, f.gatts, "global");
        if (d.vars.size() != f.vars.size()) fail("file-schema", opi, f.path + ": " + std::to_string(d.vars.size()) + " variables in file, model has " + std::to_string(f.vars.size()));
        bool dirty = false; for (auto &rk : f.ranks) { if (rk.numrecs_dirty) dirty = true; if (f.bb) for (auto &q : rk.reqs) if (q.live && q.kind != K_IGET) dirty = true; }
        if (!dirty && d.numrecs != f.numrecs) fail("file-numrecs", opi, f.path + ": header numrecs " + std::to_string(d.numrecs) + " != model " + std::to_string(f.numrecs));
        for (size_t i = 0; i < f.vars.size(); i++) {
            const MVar &mv = f.vars[i]; const cdf::Var &dv = d.vars[i];
            if (dv.name != mv.name || dv.type != mv.type || dv.dimids.size() != mv.dimids.size()) fail("file-schema", opi, f.path + ": variable " + std::to_string(i) + " '" + dv.name + "' differs from model '" + mv.name + "'");
            for (size_t k = 0; k < mv.dimids.size(); k++) if (dv.dimids[k] != mv.dimids[k]) fail("file-schema", opi, f.path + ": variable '" + mv.name + "' dimids differ");
            cmp_atts(dv.atts, mv.atts, "variable '" + mv.name + "'");
            if (!c.o.check_data) continue;
            for (size_t e = 0; e < mv.cells.size(); e++) {
                const Cell &cl = mv.cells[e];
                if (cl.st != CS_VALUE && cl.st != CS_FILL) continue;
                if (cl.bb || cl.bbpend) continue;   // burst-buffer fragment: may still sit in a log
                long long iv; double dd; bool isf; bool inside = cdf::read_elem(img, d, dv, (long long)e, iv, dd, isf);
                if (cl.st == CS_VALUE) {
                    if (!inside || dd != (double)cl.v || iv != cl.v) fail("file-data", opi, f.path + ": variable '" + mv.name + "' element " + std::to_string(e) + " holds " + (isf ? std::to_string(dd) : std::to_string(iv)) + (inside ? "" : " (beyond EOF)") + " in the file, model has " + std::to_string(cl.v));
                } else {
                    bool fisf; double ffv; long long fiv = default_fill_as_int(mv.type, fisf, ffv);
                    bool ok = mv.has_fillv ? (dd == (double)mv.fillv) : (fisf ? (mv.type == NC_FLOAT ? (float)dd == (float)ffv : dd == ffv) : iv == fiv);
                    if (!inside || !ok) fail("file-fill", opi, f.path + ": variable '" + mv.name + "' element " + std::to_string(e) + " should hold the fill value but holds " + (isf ? std::to_string(dd) : std::to_string(iv)));
                }
            }
        }
    };
    for (auto &pth : m.absent) if (sim::g->fs.lookup(pth)) fail("abort-removes", opi, "file " + pth + " still exists after ncmpi_abort of a freshly created dataset");
    for (auto &f : m.files) if (f.open) check_one(f, true);
    for (auto &kv : m.disk) { bool reopened = false; for (auto &f : m.files) if (f.open && f.path == kv.first) reopened = true; if (!reopened) check_one(kv.second, false); }
}

} // namespace

std::string violation_signature(const sim::ViolationInfo &v) {
    // kind + first library function mentioned after '@' or '[' if any
    std::string s = v.kind; size_t at = v.detail.find('@');
    if (at != std::string::npos) { size_t e = v.detail.find_first_of("< ]", at + 1); s += "@" + v.detail.substr(at + 1, e == std::string::npos ? std::string::npos : e - at - 1); }
    return s;
}
std::string RunResult::signature() const { return violations.empty() ? "" : violation_signature(violations[0]); }

RunResult run_program(Program &p, const RunOpts &o) {
    RunResult res;
    Model m; annotate(m, p);
    sim::Sim s; s.seed = p.seed; s.cfg = p.cfg.sim; s.faults = p.faults; s.record_iocalls = o.record_iocalls; s.trace = o.trace || getenv("VERIF_TRACE");
    for (auto &f : p.preload) s.fs.put_file(f.first, f.second);
    int n = p.cfg.sim.nprocs; int nslots = (int)m.files.size();
    Ctx c; c.p = &p; c.o = o; c.res = &res; c.n = n; c.rs.resize(n);
    for (auto &r : c.rs) { r.ncid.assign(nslots, -1); r.reqs.resize(nslots); }
    c.cp_arrived.assign(p.ops.size(), 0); c.cp_arrived2.assign(p.ops.size(), 0); c.cp_done.assign(p.ops.size(), 0); c.bar_arrived.assign(p.ops.size(), 0);
    res.rcs.assign(n, std::vector<OpResult>(p.ops.size()));
    sim::run(s, [&](int rank) {
        Exec e(c, rank);
        bool owncomm = (p.seed % 3 == 1) && p.cfg.profile != "C18";
        if (owncomm) MPI_Comm_dup(MPI_COMM_WORLD, &e.me.comm);
        for (size_t i = 0; i < p.ops.size(); i++) {
            e.run_op((int)i);
            if (o.stop_after_op >= 0 && (int)i == o.stop_after_op) { c.bar_arrived[i]++; Ctx *cp = &c; int n2 = n; size_t ii = i; sim::set_rank_desc("finished op#" + std::to_string(i) + ", waiting for the other ranks to return from it"); sim::block_until("harness-stop", [cp, ii, n2]() { return cp->bar_arrived[ii] >= n2; }); return; }
        }
        // epilogue: close whatever the program left open (same set on every rank)
        sim::set_cur_op((int)p.ops.size());
        for (int f = 0; f < nslots; f++) if (e.me.ncid[f] >= 0) { sim::set_in_lib(true); ncmpi_close(e.me.ncid[f]); sim::set_in_lib(false); e.me.ncid[f] = -1; e.drop_reqs(f); }
        if (owncomm) MPI_Comm_free(&e.me.comm);
    });
    res.completed = s.violations.empty();
    if (res.completed && o.check_leaks) {
        for (int r = 0; r < n; r++) {
            auto rr = sim::rank_resources(r);
            if (rr.live_blocks || rr.types || rr.comms || rr.infos || rr.files || rr.reqs || rr.fds) {
                sim::ViolationInfo v; v.kind = "oracle:resource-leak"; v.rank = r;
                v.detail = "after the last file was closed rank " + std::to_string(r) + " still holds: heap blocks=" + std::to_string(rr.live_blocks) + " (" + std::to_string(rr.live_bytes) + " B) datatypes=" + std::to_string(rr.types) + " comms=" + std::to_string(rr.comms) + " infos=" + std::to_string(rr.infos) + " files=" + std::to_string(rr.files) + " requests=" + std::to_string(rr.reqs) + " fds=" + std::to_string(rr.fds) + " allocated during:" + sim::rank_resources_detail(r) + sim::mpi_leak_report(r);
                s.violations.push_back(v); break;
            }
        }
    }
    if (o.alloc_limit && s.st.max_single_alloc > o.alloc_limit) { sim::ViolationInfo v; v.kind = "oracle:alloc-bound"; v.detail = "single allocation of " + std::to_string(s.st.max_single_alloc) + " bytes"; s.violations.push_back(v); }
    res.violations = s.violations; res.st = s.st; res.iocalls = s.iocalls; res.faults = s.faults; res.deviations = s.taken_deviations; res.probes = s.probes; res.trace = s.trace_text;
    for (auto &kv : s.fs.files) res.final_files[kv.first] = kv.second->vis;
    if (getenv("VERIF_TRACE")) fputs(res.trace.c_str(), stderr);
    sim::end_run_cleanup();
    sim::g = nullptr;
    return res;
}
