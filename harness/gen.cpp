#include <array>
#include "gen.hpp"
#include <algorithm>
#include <cstring>

using sim::Rng;

std::string gen_name(Rng &rng, const char *prefix, int idx, bool utf8) {
    std::string s = std::string(prefix) + std::to_string(idx);
    if (rng.chance(0.3)) s += "_" + std::string(1, (char)('a' + rng.below(26)));
    if (utf8 && rng.chance(0.4)) { static const char *u[] = {"\xc3\xa9", "\xce\xb1", "\xe6\x97\xa5", "\xc3\xbc", "\xc5\x81", "e\xcc\x81", "u\xcc\x88", "a\xcc\x80", "a\xcc\x85\xcc\x81"}; s += u[rng.below(9)]; }   /* the last one (a, U+0305, U+0301) IS in NFC: the acute is blocked by the overline of the same combining class and must not be composed with the a */   // the last three are NOT in NFC (decomposed): the library must normalise them
    if (utf8 && rng.chance(0.04)) s = "\xcc\x81\xcc\x96" + s;   // begins with two combining marks in non-canonical order (U+0301 class 230 before U+0316 class 220): NFC swaps them
    if (rng.chance(0.05)) s += std::string(1 + rng.below(40), 'x');
    if (utf8 && rng.chance(0.06)) { s.clear(); int n = 1 + (int)rng.below(6); for (int i = 0; i < n; i++) s += "\xf0\x90\x8c" + std::string(1, (char)(0xb0 + (idx * 7 + i) % 16)); }   // a name made only of 4-byte UTF-8 characters (U+10330..)
    return s;
}

void gen_config(Rng &rng, Program &p, const GenParams &gp) {
    sim::SimConfig &s = p.cfg.sim;
    if (gp.forced_np) s.nprocs = gp.np;
    else { int span = gp.max_np - gp.min_np + 1; s.nprocs = gp.min_np + (int)rng.below(span); if (gp.max_np >= 2 && s.nprocs == 1 && rng.chance(0.5)) s.nprocs = std::max(gp.min_np, 2); }
    int nnodes = 1 + (int)rng.below(std::min(s.nprocs, 3));
    s.node_of.resize(s.nprocs); for (int i = 0; i < s.nprocs; i++) s.node_of[i] = rng.chance(0.5) ? i * nnodes / s.nprocs : (int)rng.below(nnodes);
    static const double devs[] = {0, 0, 0.05, 0.2, 0.5}; s.deviate = devs[rng.below(5)];
    static const double pr[] = {0, 0.5, 1}; s.eager_coll = pr[rng.below(3)]; s.eager_send = pr[rng.below(3)]; s.sync_fcoll = pr[rng.below(3)];
    if (rng.chance(0.15) && s.nprocs > 1) { s.starve_rank = (int)rng.below(s.nprocs); s.starve_from = (long)rng.below(60); s.starve_len = 5 + (long)rng.below(60); }
    p.cfg.format = (int[]){1, 2, 5}[rng.below(3)];
    if (gp.hints) {
        std::string h;
        auto add = [&](const std::string &k, const std::string &v) { h += (h.empty() ? "" : ";") + k + "=" + v; };
        if (rng.chance(0.3)) add("nc_header_align_size", std::to_string((long)(1 << rng.range(2, 11))));
        if (rng.chance(0.3)) add("nc_var_align_size", std::to_string((long)(1 << rng.range(2, 10))));
        if (rng.chance(0.3)) add("nc_record_align_size", std::to_string((long)(1 << rng.range(2, 10))));
        if (rng.chance(0.2)) add("nc_in_place_swap", (const char *[]){"auto", "enable", "disable"}[rng.below(3)]);
        if (rng.chance(0.2)) add("nc_ibuf_size", std::to_string((long)(rng.chance(0.5) ? rng.range(1, 64) : 1 << 20)));
        if (rng.chance(0.2)) add("nc_hash_size_dim", std::to_string((long)rng.range(1, 3)));
        if (rng.chance(0.2)) add("nc_hash_size_var", std::to_string((long)rng.range(1, 3)));
        if (rng.chance(0.2)) add("nc_hash_size_gattr", std::to_string((long)rng.range(1, 3)));
        if (rng.chance(0.2)) add("nc_hash_size_vattr", std::to_string((long)rng.range(1, 3)));
        if (rng.chance(0.2)) add("romio_no_indep_rw", "true");
        if (rng.chance(0.3) && s.nprocs > 1) add("nc_num_aggrs_per_node", std::to_string((long)rng.range(1, s.nprocs)));
        if (!h.empty()) s.env["PNETCDF_HINTS"] = h;
        if (rng.chance(0.25)) s.env["PNETCDF_SAFE_MODE"] = "1";
    }
    if (gp.knobs) {
        if (rng.chance(0.5)) s.knobs["MOVE_UNIT"] = (long)(rng.chance(0.3) ? rng.range(61, 700) : 1 << rng.range(6, 12));
        if (rng.chance(0.5)) s.knobs["PNC_DEFAULT_CHUNKSIZE"] = (long)(rng.chance(0.5) ? 4 * rng.range(8, 64) : 1 << rng.range(6, 12));
        if (rng.chance(0.5)) s.knobs["NC_REQUEST_CHUNK"] = (long)rng.range(1, 4);
        if (rng.chance(0.5)) s.knobs["NC_ABUF_DEFAULT_TABLE_SIZE"] = (long)rng.range(2, 4);
        // PNC_ARRAY_GROWBY must stay a multiple of PNC_VATTR_ARRAY_GROWBY (64 and 4 in the shipped code): arrays sized with the former at open are grown with the latter afterwards
        if (rng.chance(0.5)) { long vg = (long)rng.range(1, 3); s.knobs["PNC_VATTR_ARRAY_GROWBY"] = vg; s.knobs["PNC_ARRAY_GROWBY"] = vg * (long)rng.range(1, 2); }
        if (rng.chance(0.4)) s.knobs["PNC_HLIST_GROWBY"] = (long)rng.range(1, 3);
        if (rng.chance(0.4)) s.knobs["PNC_VARS_CHUNK"] = (long)rng.range(1, 3);
    }
}

static int pick_memtype(Rng &rng, int nctype, const GenParams &gp) {
    if (nctype == NC_CHAR) return MT_TEXT;
    if (gp.no_type_conv || rng.chance(0.5)) return native_memtype(nctype);
    return 1 + (int)rng.below(MT_COUNT - 1);
}
static void choose_form(Rng &rng, Access &a, const MVar &v, const GenParams &gp, bool is_read, int fam = -1) {
    size_t nd = v.dimids.size();
    bool strided = false; for (auto s : a.stride) if (s != 1) strided = true;
    bool single = true; for (auto c : a.count) if (c != 1) single = false;
    a.flexible = gp.all_forms && rng.chance(0.3); a.bufkind = a.flexible ? (int)rng.below(8) : 0;
    a.memtype = pick_memtype(rng, v.type, gp);
    a.erange = (gp.erange && !is_read && rng.chance(0.15)) ? (int)rng.below(64) : -1;
    a.imap.clear(); a.nstart.clear(); a.ncount.clear();
    if (nd == 0) { a.form = rng.chance(0.5) ? F_VAR1 : F_VARA; a.stride.clear(); return; }
    int form;
    if (strided) form = (gp.all_forms && rng.chance(0.3)) ? F_VARM : (gp.all_forms && rng.chance(0.2)) ? F_VARD : F_VARS;
    else if (single && rng.chance(0.5)) form = F_VAR1;
    else {
        double x = (rng.next() >> 11) * (1.0 / 9007199254740992.0);
        form = !gp.all_forms ? F_VARA : x < 0.45 ? F_VARA : x < 0.6 ? F_VARS : x < 0.75 ? F_VARM : x < 0.9 ? F_VARN : F_VARD;
    }
    if (fam == 0 && (form == F_VARN || form == F_VARD)) form = strided ? F_VARS : F_VARA;
    if (fam == 1) { if (strided) { for (auto &x : a.stride) x = 1; } form = F_VARN; }
    if (fam == 2) form = F_VARD;
    if (gp.bb && form == F_VARD) form = F_VARS;   // put_vard bypasses the burst-buffer log (not part of C12's fragment)
    a.form = form;
    if (form == F_VARA || form == F_VAR1 || form == F_VARN) { if (!strided) a.stride.clear(); }
    if (form == F_VARS || form == F_VARM || form == F_VARD) { if (a.stride.empty()) a.stride.assign(nd, 1); }
    if (form == F_VARM) {
        // canonical, transposed or (typed only) padded mapping
        std::vector<long long> im(nd); long long m = 1; int style = (int)rng.below(a.flexible ? 2 : 3);
        if (style == 1) { for (size_t d = 0; d < nd; d++) { im[d] = m; m *= std::max<long long>(a.count[d], 1); } }
        else { for (int d = (int)nd - 1; d >= 0; d--) { im[d] = m; m *= std::max<long long>(a.count[d], 1); } if (style == 2) for (auto &x : im) x *= 2; }
        a.imap = im;
    }
    if (form == F_VARN) {
        // split the box along one dimension into 1..3 sub-requests
        size_t d = rng.below(nd); long long c = a.count[d]; int parts = (int)std::min<long long>(1 + rng.below(3), std::max<long long>(c, 1));
        long long off = 0;
        for (int i = 0; i < parts; i++) {
            long long len = (i == parts - 1) ? c - off : std::max<long long>(1, c / parts);
            std::vector<long long> s = a.start, ct = a.count; s[d] += off; ct[d] = len; off += len;
            a.nstart.push_back(s); a.ncount.push_back(ct);
        }
        if (parts > 1 && rng.chance(0.4)) { std::reverse(a.nstart.begin(), a.nstart.end()); std::reverse(a.ncount.begin(), a.ncount.end()); }   // sub-requests need not be listed in increasing file order (the highest record may be named first)
        if (rng.chance(0.2)) { std::vector<long long> z(nd, 0), zs = a.start; if (v.isrec && !is_read && rng.chance(0.5)) zs[0] = a.start[0] + a.count[0] + (long long)rng.below(4); a.nstart.push_back(zs); a.ncount.push_back(z); }   // a zero-length sub-request (for writes to record variables possibly beyond every record written: it must not count)
    }
    if (form == F_VARD) { a.flexible = true; if (a.bufkind == 4 || a.bufkind == 1) a.bufkind = 0; }
}

// a random box (start,count,stride) inside the variable; writes to record variables may extend by up to 2 records
Access gen_region_access(Rng &rng, const MVar &v, long long numrecs, bool is_read, bool allow_extend, const GenParams &gp, int fam) {
    Access a; size_t nd = v.dimids.size();
    a.start.assign(nd, 0); a.count.assign(nd, 1); a.stride.assign(nd, 1);
    for (size_t d = 0; d < nd; d++) {
        long long len = (v.isrec && d == 0) ? numrecs + ((!is_read && allow_extend) ? rng.range(0, 2) : 0) : v.shape[d];
        if (len <= 0) { a.count[d] = 0; a.start[d] = 0; continue; }
        long long st = rng.chance(0.25) ? rng.range(1, 3) : 1;
        long long s0 = rng.below(len);
        long long maxc = (len - 1 - s0) / st + 1;
        long long c = rng.chance(0.15) ? 1 : rng.range(1, maxc);
        if (rng.chance(0.3)) { s0 = 0; c = (len - 1) / st + 1; }
        a.start[d] = s0; a.count[d] = c; a.stride[d] = st;
    }
    choose_form(rng, a, v, gp, is_read, fam);
    return a;
}

// a global region split among the ranks along one dimension (blocks or cyclic), every rank using its own API form
void gen_partitioned(Rng &rng, const MVar &v, long long numrecs, int nprocs, bool coll, const GenParams &gp, std::vector<Access> &out) {
    out.assign(nprocs, Access());
    int fam = -1;
    if (coll) { double x = (rng.next() >> 11) * (1.0 / 9007199254740992.0); fam = !gp.all_forms ? 0 : x < 0.7 ? 0 : x < 0.88 ? 1 : 2; }
    Access g = gen_region_access(rng, v, numrecs, false, true, gp, fam);
    if (fam == 1) g.stride.assign(v.dimids.size(), 1);
    size_t nd = v.dimids.size();
    long long total = 1; for (auto c : g.count) total *= c;
    if (nd == 0 || total == 0) {   // scalar or empty: one rank does it
        int who = (int)rng.below(nprocs);
        for (int r = 0; r < nprocs; r++) { out[r] = g; out[r].active = (r == who); if (r == who) choose_form(rng, out[r], v, gp, false, fam); }
        return;
    }
    size_t d = rng.below(nd); for (size_t t = 0; t < nd; t++) { size_t dd = (d + t) % nd; if (g.count[dd] >= 2) { d = dd; break; } }
    long long c = g.count[d];
    bool cyclic = rng.chance(0.3) && c >= nprocs && fam != 1;
    if (g.stride.empty()) g.stride.assign(nd, 1);
    std::vector<int> order(nprocs); for (int i = 0; i < nprocs; i++) order[i] = i;
    for (int i = nprocs - 1; i > 0; i--) std::swap(order[i], order[rng.below(i + 1)]);
    int nactive = (int)std::min<long long>(c, 1 + rng.below(nprocs));
    long long off = 0;
    for (int i = 0; i < nprocs; i++) {
        int r = order[i]; Access a = g;
        if (i >= nactive) { a.active = false; if (rng.chance(0.5) && coll && fam == 0) { a.active = true; a.count[d] = 0; if (v.isrec && !a.start.empty() && rng.chance(0.5)) a.start[0] = numrecs + (long long)rng.below(4); /* a zero-length write may name a record beyond every record written: it must not count */ } out[r] = a; if (a.active) { a.form = F_VARA; a.stride.clear(); a.imap.clear(); a.flexible = false; a.memtype = v.type == NC_CHAR ? MT_TEXT : native_memtype(v.type); out[r] = a; } continue; }
        if (cyclic) { a.start[d] = g.start[d] + i * g.stride[d]; a.stride[d] = g.stride[d] * nactive; a.count[d] = (c - i + nactive - 1) / nactive; }
        else { long long len = (i == nactive - 1) ? c - off : std::max<long long>(1, (c - off) / (nactive - i)); if (i < nactive - 1 && rng.chance(0.3) && c - off - len > (nactive - i - 1)) len += 1; a.start[d] = g.start[d] + off * g.stride[d]; a.count[d] = len; off += len; }
        if (a.stride.empty()) a.stride.assign(nd, 1);
        choose_form(rng, a, v, gp, false, fam);
        out[r] = a;
    }
}

// make the arguments of a random subset of ranks invalid in one of the documented ways (C08)
static void mutate_invalid(Rng &rng, const MVar &v, std::vector<Access> &acc, bool is_read) {
    for (auto &a : acc) {
        if (!a.active || !rng.chance(0.3)) continue;
        size_t nd = v.dimids.size();
        int kind = 1 + (int)rng.below(6);
        if (nd == 0 && kind != INV_BAD_VARID && kind != INV_TYPE_CHAR) kind = rng.chance(0.5) ? INV_BAD_VARID : INV_TYPE_CHAR;
        if (a.form == F_VARD && kind != INV_BAD_VARID) continue;
        if (a.form == F_VAR && kind != INV_BAD_VARID && kind != INV_TYPE_CHAR) a.form = F_VARA;
        a.invalid = kind;
        size_t d = nd ? rng.below(nd) : 0;
        auto setall = [&](bool is_start, long long val) { auto &x = is_start ? a.start : a.count; if (a.form == F_VARN) { for (auto &s : (is_start ? a.nstart : a.ncount)) if (d < s.size()) s[d] = val; } if (d < x.size()) x[d] = val; };
        switch (kind) {
        case INV_BAD_START: if (v.isrec && d == 0 && !is_read) d = nd > 1 ? 1 : 0; if (v.isrec && d == 0 && !is_read) { a.invalid = INV_BAD_VARID; break; } setall(true, v.shape[d] + 2); break;
        case INV_BAD_EDGE: if (v.isrec && d == 0) d = nd > 1 ? 1 : 0; if (v.isrec && d == 0) { a.invalid = INV_BAD_VARID; break; } if (a.form == F_VAR1) a.form = F_VARA; setall(true, 0); setall(false, v.shape[d] + 1); break;
        case INV_NEG_COUNT: if (a.form == F_VAR1) a.form = F_VARA; setall(false, -1 - (long long)rng.below(3)); break;
        case INV_BAD_STRIDE: if (a.form == F_VARN || a.form == F_VAR1 || a.form == F_VARA) { a.form = F_VARS; } if (a.stride.size() != nd) a.stride.assign(nd, 1); a.stride[d] = -(long long)rng.below(2); break;
        default: break;
        }
    }
}
static int pick_type(Rng &rng, int format) { return format == 5 ? (int)rng.range(NC_BYTE, NC_UINT64) : (int)rng.range(NC_BYTE, NC_DOUBLE); }
static AttVal gen_att(Rng &rng, int format) {
    AttVal a; a.type = pick_type(rng, format); int n = rng.chance(0.15) ? 0 : (int)rng.range(1, 9);
    for (int i = 0; i < n; i++) a.v.push_back((long long)rng.range(1, 100000));
    return a;
}

Program gen_program(uint64_t seed, const GenParams &gp, const std::string &profile) {
    Program p; p.seed = seed; p.cfg.profile = profile;
    uint64_t sd = seed ^ 0x5bd1e995; Rng rng(Rng::splitmix(sd));
    gen_config(rng, p, gp);
    if (gp.iget_overlap_strict && rng.chance(0.1)) p.cfg.flags |= 1;
    if (gp.invalid_args && rng.chance(0.1)) p.cfg.flags |= 2;   // strict checking of overlapping iget requests
    if (gp.bb) p.cfg.flags |= 4;   // annotate by the burst-buffer fragment rules
    int np = p.cfg.sim.nprocs;
    Model gm; gm.init(np, gp.multi_file ? 3 : 1); gm.cur_ops = &p.ops; gm.strict_iget_overlap = (p.cfg.flags & 1) != 0; gm.bb_rules = gp.bb; { auto sm = p.cfg.sim.env.find("PNETCDF_SAFE_MODE"); gm.safe_mode = (sm != p.cfg.sim.env.end() && sm->second != "0"); } { auto h = p.cfg.sim.env.find("PNETCDF_HINTS"); gm.aggr_env = (h != p.cfg.sim.env.end() && h->second.find("nc_num_aggrs_per_node") != std::string::npos); }
    auto it = p.cfg.sim.env.find("PNETCDF_RELAX_COORD_BOUND"); gm.strict_coord = (it != p.cfg.sim.env.end() && it->second == "0");
    auto emit = [&](Op op) -> bool {
        if (gp.invalid_args && gm.safe_mode && np > 1 && (op.kind == OP_DEF_DIM || op.kind == OP_DEF_VAR || op.kind == OP_RENAME_DIM || op.kind == OP_RENAME_VAR || op.kind == OP_PUT_ATT || op.kind == OP_ENDDEF2) && rng.chance(0.2)) {
            // safe mode (C08): one rank disagrees on a name or a value of a collective metadata call
            op.alt_rank = (int)rng.below(np);
            bool by_name = op.kind == OP_RENAME_DIM || op.kind == OP_RENAME_VAR || (op.kind != OP_ENDDEF2 && rng.chance(0.5));
            if (by_name) op.alt_name = ((op.kind == OP_RENAME_DIM || op.kind == OP_RENAME_VAR) ? op.name2 : op.name) + "_z";
            else op.alt_val = op.kind == OP_DEF_DIM ? op.a[0] + 1 : op.kind == OP_DEF_VAR ? (op.a[0] == NC_INT ? NC_FLOAT : NC_INT) : op.a[1] + 4;
        }
        p.ops.push_back(op); gm.cur_ops = &p.ops; bool ok = model_step(gm, p.ops.back()); if (!ok) { p.ops.pop_back(); gm.opidx--; } return ok; };
    auto checkpoint = [&]() { Op o; o.kind = OP_CHECKPOINT; emit(o); };
    int nfiles = gp.multi_file ? (int)rng.range(1, 3) : 1;
    int ndim_ctr = 0, nvar_ctr = 0, natt_ctr = 0;
    std::vector<Op> deferred_close;   // several files open at once
    for (int fi = 0; fi < nfiles; fi++) {
        if (gp.redef && rng.chance(0.1)) {   // aborting a freshly created dataset removes it
            Op c0; c0.kind = OP_CREATE; c0.file = fi; c0.name = "/sim/aborted" + std::to_string(fi) + ".nc"; c0.a[0] = p.cfg.format; emit(c0);
            Op d0; d0.kind = OP_DEF_DIM; d0.file = fi; d0.name = "x"; d0.a[0] = 3; emit(d0);
            Op ab; ab.kind = OP_ABORT; ab.file = fi; emit(ab); checkpoint();
        }
        Op c; c.kind = OP_CREATE; c.file = fi; c.name = "/sim/f" + std::to_string(fi) + ".nc"; c.a[0] = p.cfg.format;
        if (gp.bb) { c.hints["nc_burst_buf"] = "enable"; }
        emit(c);
        MFile &f = gm.files[fi];
        auto define_phase = [&](bool first, bool finish = true) {
            if (first && gp.meta_heavy) for (int pf = 0; pf < fi; pf++) {   // another file is still open in data mode: copy an attribute into it from this file, which is in define mode (header of the destination must be rewritten at once)
                MFile &pg = gm.files[pf]; if (!pg.open || pg.mode != FM_COLL || pg.readonly || pg.gatts.empty() || !rng.chance(0.6)) continue;
                const MAtt old = pg.gatts[rng.below(pg.gatts.size())]; if (old.name == "_FillValue" || !type_ok_for_format(old.type, f.format)) continue;
                Op pa; pa.kind = OP_PUT_ATT; pa.file = fi; pa.var = -1; pa.name = old.name; pa.att.type = old.type; long long n = old.v.empty() ? 0 : (long long)rng.range(0, (long long)old.v.size()); for (long long k2 = 0; k2 < n; k2++) pa.att.v.push_back((long long)rng.range(1, 100)); emit(pa);
                Op ca; ca.kind = OP_COPY_ATT; ca.file = fi; ca.var = -1; ca.a[0] = pf; ca.a[1] = -1; ca.a[2] = (long long)(f.gatts.empty() ? 0 : f.gatts.size() - 1); if (emit(ca)) checkpoint();
            }
            if (gp.fill && rng.chance(0.5)) { Op o; o.kind = OP_SET_FILL; o.file = fi; o.a[0] = rng.chance(0.7); emit(o); }
            int nd = first ? (int)rng.range(1, 4) : (int)rng.range(0, 2);
            for (int i = 0; i < nd; i++) { Op o; o.kind = OP_DEF_DIM; o.file = fi; o.name = gen_name(rng, "d", ndim_ctr++, gp.utf8_names); o.a[0] = (gp.recs && f.unlimdim() < 0 && rng.chance(0.4)) ? 0 : rng.range(1, gp.big && rng.chance(0.2) ? 40 : gp.max_dimlen); emit(o); }
            if (gp.atts) { int na = (int)rng.range(0, 3); for (int i = 0; i < na; i++) { Op o; o.kind = OP_PUT_ATT; o.file = fi; o.var = -1; o.name = gen_name(rng, "ga", natt_ctr++, gp.utf8_names); o.att = gen_att(rng, f.format); if (rng.chance(0.08)) o.a[3] = 1 + (long long)rng.below(8); emit(o); } }
            int nv = first ? (int)rng.range(1, 5) : (int)rng.range(0, 3);
            for (int i = 0; i < nv; i++) {
                Op o; o.kind = OP_DEF_VAR; o.file = fi; o.name = gen_name(rng, "v", nvar_ctr++, gp.utf8_names); o.a[0] = pick_type(rng, f.format);
                int r = (int)rng.range(0, 3); if (rng.chance(0.1)) r = (int)rng.range(4, 5);
                bool rec = gp.recs && f.unlimdim() >= 0 && rng.chance(0.5);
                for (int k = 0; k < r; k++) {
                    if (k == 0 && rec) { o.dims.push_back(f.unlimdim()); continue; }
                    // pick a non-record dimension
                    std::vector<int> cand; for (size_t d = 0; d < f.dims.size(); d++) if (f.dims[d].len != 0) cand.push_back((int)d);
                    if (cand.empty()) break; o.dims.push_back(cand[rng.below(cand.size())]);
                }
                if (!emit(o)) continue;
                int vi = (int)f.vars.size() - 1;
                if (gp.fill && rng.chance(0.5)) { Op q; q.kind = OP_DEF_VAR_FILL; q.file = fi; q.var = vi; q.a[0] = rng.chance(0.3); q.a[1] = rng.chance(0.5); q.a[2] = (long long)rng.range(1, 100000); emit(q); }
                if (gp.atts && rng.chance(0.4)) { Op q; q.kind = OP_PUT_ATT; q.file = fi; q.var = vi; q.name = gen_name(rng, "a", natt_ctr++, gp.utf8_names); q.att = gen_att(rng, f.format); emit(q); }
            }
            if (gp.fill && rng.chance(0.25)) { Op o; o.kind = OP_SET_FILL; o.file = fi; o.a[0] = rng.chance(0.5); emit(o); }   // after the per-variable settings: overrides every variable's mode but keeps their _FillValue attributes
            if (gp.meta_heavy) {
                int k = (int)rng.range(0, 4);
                for (int i = 0; i < k; i++) {
                    Op o; o.file = fi; int w = (int)rng.below(6);
                    if (w == 5) { o.kind = OP_COPY_ATT; o.a[0] = fi; o.var = rng.chance(0.5) ? -1 : (int)rng.below(8); o.a[1] = rng.chance(0.5) ? -1 : (long long)rng.below(8); o.a[2] = (long long)rng.below(8); emit(o); continue; }
                    auto decomposed = [&](const std::string &nmx) { std::string t = nmx; static const struct { const char *c, *d; } tb[] = {{"\xc3\xa9", "e\xcc\x81"}, {"\xc3\xbc", "u\xcc\x88"}, {"\xc3\xa0", "a\xcc\x80"}}; for (auto &x : tb) { size_t pos = t.find(x.c); if (pos != std::string::npos) t.replace(pos, strlen(x.c), x.d); } return t; };
                    if (w == 0) { o.kind = OP_RENAME_DIM; o.dim = (int)rng.below(8); o.name2 = gen_name(rng, "rd", ndim_ctr++, gp.utf8_names); if (gp.utf8_names && f.dims.size() >= 2 && rng.chance(0.2)) o.name2 = decomposed(f.dims[rng.below(f.dims.size())].name); }
                    else if (w == 1) { o.kind = OP_RENAME_VAR; o.var = (int)rng.below(8); o.name2 = gen_name(rng, "rv", nvar_ctr++, gp.utf8_names); if (gp.utf8_names && f.vars.size() >= 2 && rng.chance(0.2)) o.name2 = decomposed(f.vars[rng.below(f.vars.size())].name); }
                    else if (w == 2) { o.kind = OP_RENAME_ATT; o.var = rng.chance(0.5) ? -1 : (int)rng.below(8); o.a[0] = rng.below(8); o.name2 = gen_name(rng, "ra", natt_ctr++, gp.utf8_names); auto &al = (o.var < 0 || f.vars.empty()) ? f.gatts : f.vars[o.var % f.vars.size()].atts; if (gp.utf8_names && al.size() >= 2 && rng.chance(0.3)) o.name2 = decomposed(al[rng.below(al.size())].name); }
                    else if (w == 3) { o.kind = OP_DEL_ATT; o.var = rng.chance(0.5) ? -1 : (int)rng.below(8); o.a[0] = rng.below(8); }
                    else { o.kind = OP_PUT_ATT; o.var = rng.chance(0.5) ? -1 : (int)rng.below(8); o.att = gen_att(rng, f.format); auto &l = (o.var < 0 || f.vars.empty()) ? f.gatts : f.vars[o.var % f.vars.size()].atts; if (l.empty()) continue; o.name = l[rng.below(l.size())].name; }
                    emit(o);
                }
            }
            if (!finish) return;
            if (first && gp.close_pending && !f.vars.empty() && rng.chance(0.06)) {   // a nonblocking request posted while the new file is still in its first define mode, then abort: the request must be cancelled (NC_EPENDING) and the file removed
                Op o; o.file = fi; o.var = (int)rng.below(f.vars.size()); o.kind = OP_IPUT; gen_partitioned(rng, f.vars[o.var], 0, np, false, gp, o.acc); for (auto &a : o.acc) if (a.form == F_VARD) { a.form = F_VARS; a.flexible = false; }
                if (emit(o)) { Op ab; ab.kind = OP_ABORT; ab.file = fi; ab.a[0] = 1; if (emit(ab)) return; }
            }
            Op e; e.file = fi;
            if (gp.align_args && rng.chance(0.5)) { e.kind = OP_ENDDEF2; e.a[0] = rng.chance(0.5) ? 0 : rng.range(0, 300); e.a[1] = rng.chance(0.5) ? 1 << rng.range(2, 9) : rng.range(1, 40) * 4; e.a[2] = rng.chance(0.5) ? 0 : rng.range(0, 100); e.a[3] = rng.chance(0.5) ? 1 << rng.range(2, 9) : rng.range(1, 40) * 4; }
            else e.kind = OP_ENDDEF;
            emit(e);
            if (gp.fill && rng.chance(0.85)) { Op sp; sp.kind = OP_SYNCPOINT; sp.file = fi; emit(sp); }
        };
        define_phase(true);
        if (gp.checkpoint_each) checkpoint();
        int nops = (int)rng.range(3, gp.max_data_ops);
        int pending = 0;
        for (int k = 0; k < nops; k++) {
            if (!f.open) break;
            if (f.vars.empty()) break;
            double x = (rng.next() >> 11) * (1.0 / 9007199254740992.0);
            if (gp.meta_heavy && rng.chance(0.12)) x = 2.0;   // metadata-heavy programs: one op in eight is a data-mode metadata update
            Op o; o.file = fi;
            int vi = (int)rng.below(f.vars.size()); MVar &v = f.vars[vi]; o.var = vi;
            bool indep = f.mode == FM_INDEP;
            if (x < 0.34) {   // write
                o.kind = OP_PUT; o.coll = !indep;
                gen_partitioned(rng, v, f.numrecs, np, o.coll, gp, o.acc);
                if (gp.invalid_args && o.coll && (!v.isrec || (p.cfg.flags & 2))) mutate_invalid(rng, v, o.acc, false);   // invalid arguments in a collective put to a record variable: known finding, 10% of seeds
                if (emit(o) && gp.syncpoint_after_write && rng.chance(0.8)) { Op s; s.kind = OP_SYNCPOINT; s.file = fi; emit(s); }
            } else if (x < 0.62) {   // read
                o.kind = OP_GET; o.coll = !indep;
                int fam = -1; if (o.coll) { double y = (rng.next() >> 11) * (1.0 / 9007199254740992.0); fam = !gp.all_forms ? 0 : y < 0.7 ? 0 : y < 0.88 ? 1 : 2; }
                for (int r = 0; r < np; r++) { Access a = gen_region_access(rng, v, f.ranks[r].numrecs, true, false, gp, fam); if (rng.chance(0.15)) a.active = false; if (rng.chance(0.1) && fam <= 0) { a.form = F_VAR; a.flexible = false; a.stride.clear(); a.imap.clear(); } o.acc.push_back(a); }
                if (gp.invalid_args && o.coll) mutate_invalid(rng, v, o.acc, true);
                emit(o);
            } else if (x < 0.70 && gp.indep) { o.kind = indep ? OP_END_INDEP : OP_BEGIN_INDEP; emit(o); }
            else if (x < 0.74) { o.kind = OP_SYNCPOINT; emit(o); }
            else if (x < 0.77) { o.kind = rng.chance(0.5) ? OP_SYNC : OP_SYNC_NUMRECS; emit(o); }
            else if (x < 0.80) { o.kind = OP_INQ; emit(o); }
            else if (x < 0.90 && gp.nonblocking) {
                double y = (rng.next() >> 11) * (1.0 / 9007199254740992.0);
                if (y < 0.1 && !f.ranks[0].abuf) {
                    o.kind = OP_ATTACH; o.a[0] = rng.chance(0.3) ? rng.range(8, 200) : rng.range(200, 20000);
                    if (rng.chance(0.35)) {   // tight fit: the buffer is sized around what the buffered put posted next needs (in external and in memory representation), so acceptance / refusal is decided at the boundary
                        Op b; b.file = fi; b.var = o.var; b.kind = OP_BPUT; gen_partitioned(rng, v, f.numrecs, np, false, gp, b.acc); for (auto &a : b.acc) if (a.form == F_VARD) { a.form = F_VARS; a.flexible = false; }
                        long long ne = 0, isz = 1; for (auto &a : b.acc) if (a.active) { ne = std::max<long long>(acc_nelems(a), 0); isz = mt_size(a.memtype); if (rng.chance(0.5)) break; }
                        long long nx = ne * nc_type_size(v.type), nm2 = ne * isz; long long k = 1 + (long long)rng.below(2);
                        static const int ds[] = {-1, 0, 0, 1}; long long cand[] = {k * nx + ds[rng.below(4)], k * nm2 + ds[rng.below(4)], k * (nx + nm2) / 2, k * nx + (k - 1)};
                        long long sz = cand[rng.below(4)]; if (sz > 0 && ne > 0) { o.a[0] = sz; if (emit(o)) { if (k == 2 && rng.chance(0.5)) { Op b0 = b; if (emit(b0)) pending++; } if (emit(b)) pending++; } continue; }
                    }
                    emit(o);
                }
                else if (y < 0.45) {
                    // one post, or a burst of 3..6 posts (puts or gets) to the same variable completed by one wait: many sub-requests whose file ranges nest / interleave in one aggregation
                    int burst = rng.chance(0.2) ? 3 + (int)rng.below(4) : 1; bool gets = burst > 1 && rng.chance(0.3); int posted = 0;
                    for (int b = 0; b < burst && f.open; b++) {
                        Op o2; o2.file = fi; o2.var = o.var;
                        if (gets) { o2.kind = OP_IGET; for (int r = 0; r < np; r++) { Access a = gen_region_access(rng, v, f.ranks[r].numrecs, true, false, gp); if (a.form == F_VARD) { a.form = F_VARS; a.flexible = false; } if (rng.chance(0.2)) a.active = false; o2.acc.push_back(a); } }
                        else { o2.kind = (f.ranks[0].abuf && rng.chance(0.5)) ? OP_BPUT : OP_IPUT; gen_partitioned(rng, v, f.numrecs, np, false, gp, o2.acc); for (auto &a : o2.acc) if (a.form == F_VARD) { a.form = F_VARS; a.flexible = false; } }
                        if (emit(o2)) { pending++; posted++; }
                    }
                    if (burst > 1 && posted > 1 && rng.chance(0.8)) { Op w; w.file = fi; w.kind = OP_WAIT; w.coll = !indep; w.waits.resize(np); for (auto &ws : w.waits) { ws.mode = rng.chance(0.7) ? 1 : 4; if (rng.chance(0.2)) ws.nostatus = true; } if (emit(w)) { pending = 0; if (rng.chance(0.7)) { Op sp; sp.kind = OP_SYNCPOINT; sp.file = fi; emit(sp); } } }
                }
                else if (y < 0.65) { o.kind = OP_IGET; for (int r = 0; r < np; r++) { Access a = gen_region_access(rng, v, f.ranks[r].numrecs, true, false, gp); if (a.form == F_VARD) { a.form = F_VARS; a.flexible = false; } if (rng.chance(0.2)) a.active = false; o.acc.push_back(a); } if (emit(o)) pending++; }
                else if (y < 0.92) {
                    o.kind = OP_WAIT; o.coll = !indep; o.waits.resize(np);
                    for (int r = 0; r < np; r++) { WaitSpec &w = o.waits[r]; w.mode = rng.chance(0.45) ? 1 + (int)rng.below(3) : rng.chance(0.2) ? 4 : 0; if (rng.chance(0.1)) w.active = false; if (rng.chance(0.2)) w.nostatus = true;
                        if (w.mode == 0) { int n = (int)rng.range(0, 5); for (int i = 0; i < n; i++) w.slots.push_back(rng.chance(0.08) ? -1 : (int)rng.below(12)); if (rng.chance(0.04)) { w.slots.assign(1 + rng.below(2), -2); } } }
                    if (emit(o)) { pending = 0; if (rng.chance(0.7)) { Op s; s.kind = OP_SYNCPOINT; s.file = fi; emit(s); } }
                } else {
                    o.kind = OP_CANCEL; o.waits.resize(np); bool stack_case = false;
                    for (int r = 0; r < np; r++) {
                        WaitSpec &w = o.waits[r]; w.mode = rng.chance(0.3) ? 1 : rng.chance(0.25) ? 2 + (int)rng.below(2) : 0; int n = (int)rng.range(0, 4); for (int i = 0; i < n; i++) w.slots.push_back(rng.chance(0.2) ? -1 : (int)rng.below(12));   // modes incl. NC_GET_REQ_ALL / NC_PUT_REQ_ALL; NC_REQ_NULL entries in an id list must be skipped, not end the processing
                        // attached-buffer stack scenario: cancel (by id) a buffered put that is not the last one posted, then post another one while the later one is still pending
                        std::vector<int> bp; for (int s2 = 0; s2 < (int)f.ranks[r].reqs.size(); s2++) if (f.ranks[r].reqs[s2].live && f.ranks[r].reqs[s2].kind == K_BPUT) bp.push_back(s2);
                        if (bp.size() >= 2 && rng.chance(0.5)) { w.mode = 0; w.slots.assign(1, bp[rng.below(bp.size() - 1)]); stack_case = true; }
                    }
                    bool getall = false; for (auto &w : o.waits) if (w.mode == 2) getall = true;   // cancelling only the reads must leave the attached buffer's accounting alone: follow up with another buffered put
                    bool ok = emit(o);
                    if (ok && (stack_case || getall) && f.ranks[0].abuf && rng.chance(0.7)) { Op b2; b2.file = fi; b2.var = (int)rng.below(f.vars.size()); b2.kind = OP_BPUT; gen_partitioned(rng, f.vars[b2.var], f.numrecs, np, false, gp, b2.acc); for (auto &a : b2.acc) if (a.form == F_VARD) { a.form = F_VARS; a.flexible = false; } if (emit(b2)) pending++; }
                }
            } else if (x < 0.95 && gp.redef) {
                o.kind = OP_REDEF;
                if (emit(o)) {
                    if (rng.chance(0.25)) {   // aborted redefinition: the file must be byte-identical to its state at ncmpi_redef
                        Op c1; c1.kind = OP_CHECKPOINT; c1.file = fi; c1.a[0] = 1; emit(c1);
                        define_phase(false, false);
                        Op ab; ab.kind = OP_ABORT; ab.file = fi; emit(ab);
                        Op c2; c2.kind = OP_CHECKPOINT; c2.file = fi; c2.a[0] = 2; emit(c2);
                        Op re; re.kind = OP_OPEN; re.file = fi; re.name = "/sim/f" + std::to_string(fi) + ".nc"; re.a[0] = 1; emit(re);
                    } else define_phase(false);
                }
            } else if (gp.fill && v.isrec && x < 1.5) { o.kind = OP_FILL_VAR_REC; o.a[0] = rng.range(0, f.numrecs + 1); if (gp.fill_rec_split && np > 1 && !gm.safe_mode && rng.chance(0.3)) o.a[1] = rng.range(1, 3); emit(o); }
            else if (gp.meta_heavy) {
                // data-mode metadata updates: rename to a shorter name, overwrite an attribute with a value whose padded size does not grow
                auto shorter = [&](const std::string &nm) { size_t cut = std::max<size_t>(1, nm.size() - 1 - (nm.size() > 3 ? rng.below(2) : 0)); while (cut > 0 && ((unsigned char)nm[cut] & 0xC0) == 0x80) cut--; return cut == 0 ? nm : nm.substr(0, cut); };   // cut at a character boundary (names may consist of multi-byte characters only)
                int w = (int)rng.below(6);
                if (w == 5) {   // copy_att in data mode: permitted onto an existing attribute whose padded size does not grow, refused (NC_ENOTINDEFINE, no effect) otherwise
                    o.kind = OP_COPY_ATT; o.a[0] = fi; o.var = rng.chance(0.5) ? -1 : (int)rng.below(f.vars.size()); o.a[1] = rng.chance(0.5) ? -1 : (long long)rng.below(f.vars.size()); o.a[2] = (long long)rng.below(8);
                    if (rng.chance(0.7)) {   // prefer a pair of lists that share an attribute name (only then can the copy be accepted in data mode)
                        std::vector<std::array<long long, 3>> cand;
                        for (int sv = -1; sv < (int)f.vars.size(); sv++) for (int dv = -1; dv < (int)f.vars.size(); dv++) { if (sv == dv) continue; auto &sl = sv < 0 ? f.gatts : f.vars[sv].atts; auto &dl = dv < 0 ? f.gatts : f.vars[dv].atts; for (size_t ai = 0; ai < sl.size(); ai++) if (sl[ai].name != "_FillValue") for (auto &da : dl) if (da.name == sl[ai].name) cand.push_back({sv, dv, (long long)ai}); }
                        if (!cand.empty()) { auto c3 = cand[rng.below(cand.size())]; o.var = (int)c3[0]; o.a[1] = c3[1]; o.a[2] = c3[2]; }
                    }
                    emit(o);
                } else
                if (w == 0) { o.kind = OP_RENAME_VAR; o.name2 = shorter(v.name); if (o.name2 != v.name) emit(o); }
                else if (w == 1 && !f.dims.empty()) { o.kind = OP_RENAME_DIM; o.dim = (int)rng.below(f.dims.size()); o.name2 = shorter(f.dims[o.dim].name); if (o.name2 != f.dims[o.dim].name) emit(o); }
                else {
                    bool glob = f.vars.empty() || rng.chance(0.5); int avi = glob ? -1 : (int)rng.below(f.vars.size());
                    auto &l = glob ? f.gatts : f.vars[avi].atts;
                    if (!l.empty()) {
                        size_t ai = rng.below(l.size()); MAtt old = l[ai];
                        if (w == 2 && old.name != "_FillValue") { o.kind = OP_RENAME_ATT; o.var = avi; o.a[0] = (long long)ai; o.name2 = shorter(old.name); if (o.name2 != old.name) emit(o); }
                        else if (old.name != "_FillValue") {
                            o.kind = OP_PUT_ATT; o.var = avi; o.name = old.name;
                            long long cap = ((long long)old.v.size() * nc_type_size(old.type) + 3) / 4 * 4;
                            o.att.type = rng.chance(0.6) ? old.type : pick_type(rng, f.format); if (old.type == NC_CHAR || o.att.type == NC_CHAR) o.att.type = old.type;
                            long long maxn = cap / nc_type_size(o.att.type); long long n = rng.chance(0.5) ? maxn : (long long)rng.range(0, maxn); if (rng.chance(0.15)) n = maxn + 1 + (long long)rng.below(3);   // sometimes too large: must be refused
                            for (long long k2 = 0; k2 < n; k2++) o.att.v.push_back((long long)rng.range(1, 100000));
                            if (gp.erange || rng.chance(0.2)) { if (rng.chance(0.3)) o.a[3] = 1 + (long long)rng.below(8); }
                            emit(o);
                        }
                    }
                }
            }
            if (gp.badids && rng.chance(0.25)) { Op b; b.kind = OP_BADID; b.file = fi; b.a[0] = rng.below(4); b.a[1] = rng.below(16); b.a[2] = rng.below(100); emit(b); }
            if (gp.checkpoint_each) checkpoint();
        }
        if (f.open) {
            // complete whatever is still pending, then leave independent mode
            if (gp.nonblocking && !(gp.close_pending && rng.chance(0.4))) { Op w; w.kind = OP_WAIT; w.file = fi; w.coll = f.mode != FM_INDEP; w.waits.resize(np); for (auto &x : w.waits) x.mode = 1; emit(w); Op d; d.kind = OP_DETACH; d.file = fi; emit(d); }
            if (rng.chance(0.7)) { Op s; s.kind = OP_SYNCPOINT; s.file = fi; emit(s); }
            if (rng.chance(0.5)) checkpoint();
            Op cl; cl.kind = (gp.badids && rng.chance(0.15)) ? OP_ABORT : OP_CLOSE; cl.file = fi; cl.a[0] = gp.close_pending ? 1 : 0; if (gp.multi_file && rng.chance(0.4) && fi + 1 < nfiles) deferred_close.push_back(cl); else emit(cl);
            if (gp.badids && rng.chance(0.5)) { Op b; b.kind = OP_BADID; b.file = fi; b.a[0] = rng.below(4); b.a[1] = rng.below(16); b.a[2] = rng.below(100); emit(b); }
        }
    }
    for (auto &cl : deferred_close) emit(cl);
    checkpoint();
    if (gp.reopen) {
        for (int fi = 0; fi < nfiles; fi++) {
            Op o; o.kind = OP_OPEN; o.file = fi; o.name = "/sim/f" + std::to_string(fi) + ".nc"; o.a[0] = rng.chance(0.3);
            if (!emit(o)) continue;
            MFile &f = gm.files[fi];
            { Op q; q.kind = OP_INQ; q.file = fi; emit(q); }
            int nr = (int)rng.range(1, 4);
            for (int k = 0; k < nr && !f.vars.empty(); k++) {
                Op g; g.kind = OP_GET; g.file = fi; g.var = (int)rng.below(f.vars.size()); g.coll = true; MVar &v = f.vars[g.var];
                for (int r = 0; r < np; r++) { Access a = rng.chance(0.3) ? Access() : gen_region_access(rng, v, f.numrecs, true, false, gp, 0); if (a.start.empty() && !v.dimids.empty()) { a.form = F_VAR; } g.acc.push_back(a); }
                emit(g);
            }
            Op cl; cl.kind = OP_CLOSE; cl.file = fi; emit(cl);
        }
        checkpoint();
    }
    gm.cur_ops = nullptr;
    return p;
}
