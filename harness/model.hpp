// Executable reference model of the PnetCDF API (schema, modes, data cells, record counts, requests).
// The "annotator" walks a program through the model, marks ops that are not applicable (skip) and
// fills in the expected outcome of every call before the real library is run.
#pragma once
#include "prog.hpp"
#include <map>

enum CellState : uint8_t { CS_UNWRITTEN = 0, CS_FILL = 1, CS_VALUE = 2, CS_UNKNOWN = 3 };
struct Cell { uint8_t st = CS_UNWRITTEN; uint8_t wmask = 0; /* ranks that wrote it since the last documented synchronisation */ uint8_t bb = 0; /* burst-buffer fragment: ranks whose log may still hold a write to it */ uint8_t bbx = 0; /* ... ranks whose flush of such a write is not yet ordered (barrier / collective flush) before the other ranks' next calls */ uint8_t bbpend = 0; /* ... number of pending nonblocking put requests covering it */ long long v = 0; };

struct MAtt { std::string name; int type = NC_INT; std::vector<long long> v; int unk = -1; /* index of an element whose stored value is unspecified (it was out of range when put: NC_ERANGE) */ };
struct MDim { std::string name; long long len = 0; };   // len == 0: the unlimited dimension
struct MVar {
    std::string name; int type = NC_INT; std::vector<int> dimids; std::vector<MAtt> atts;
    bool isrec = false; std::vector<long long> shape;   // shape[0] == 0 for record variables
    long long recelems = 1;     // elements per record (record var) or total elements (fixed var)
    bool no_fill = true; bool has_fillv = false; long long fillv = 0; bool fill_known = true;   // fill mode is not stored in the file: unknown after reopen
    bool fresh = true;          // defined in the current define-mode session (not yet through enddef)
    std::vector<Cell> cells;    // fixed: recelems cells; record: numrecs_alloc * recelems
    long long nrec_alloc = 0;
};
struct MReq { bool live = false; int kind = K_IPUT; int var = 0; Access acc; long long nbytes = 0; int opidx = -1; long long abuf_bytes = 0; long long maxrec = 0; /* put: number of records the file has once the request is in it */ bool bb_flushed = false; /* burst buffer: a flush of the owner's log happened after the post (cancelling may fail with NC_EFLUSHED) */ };
struct MRank { std::vector<std::pair<long long, int>> abuf_table; /* (bytes, reqslot or -1 when released) in allocation order */ long long numrecs = 0; std::vector<MReq> reqs; bool abuf = false; long long abuf_size = 0, abuf_used = 0; bool numrecs_dirty = false; bool bb_pending = false; /* burst buffer: the rank's log may hold unflushed entries */ };
enum FMode { FM_DEFINE, FM_COLL, FM_INDEP };
struct MFile {
    bool open = false; std::string path; int format = 1; int mode = FM_DEFINE; bool readonly = false; bool fresh = true; bool poisoned = false; // fresh: created and never enddef'ed; poisoned: the definition holds over-sized variables (C14 probe 20), enddef fails with NC_EVARSIZE until the file is aborted
    bool in_redef = false;
    bool first_layout = false; long long ed[4] = {0, 0, 0, 0};   // the current layout was computed by the first enddef of a file created in this session, with these __enddef arguments (alignment oracle)
    std::vector<MDim> dims; std::vector<MVar> vars; std::vector<MAtt> gatts;
    long long numrecs = 0; bool fill = false;
    std::vector<MRank> ranks;
    bool bb = false;  // burst-buffer driver
    bool aggr = false; // intra-node write aggregation: a rank's written data travels through another rank
    // snapshot taken at redef (for abort)
    std::shared_ptr<MFile> saved;
    int unlimdim() const { for (size_t i = 0; i < dims.size(); i++) if (dims[i].len == 0) return (int)i; return -1; }
};
// persistent content of closed files (path -> state), so OPEN can restore the model
struct Model {
    int nprocs = 1;
    bool strict_coord = false;
    bool aggr_env = false;
    bool safe_mode = false;   // PNETCDF_SAFE_MODE: argument errors of collective data calls are shared (every rank returns the smallest code)
    bool bb_rules = false;    // C12: the program is annotated by the burst-buffer fragment rules (documented limitations) whichever driver executes it
    bool strict_iget_overlap = false;   // check the overlapped share of overlapping iget requests completed by one wait (known finding: kept for 10% of C02 seeds)
    std::vector<MFile> files;                 // file slots
    std::map<std::string, MFile> disk;        // closed files by path
    int opidx = 0;
    struct PRead { int op, rank, file, var; };
    std::vector<PRead> pending_reads;       // reads not yet ordered (by a barrier) before later writes of other ranks
    std::map<int, int> snap_state;          // file slot -> 1: image snapshot taken after redef, 2: aborted since (compare allowed)
    std::vector<std::string> absent;        // paths that must not exist (aborted creates, deletes)
    std::vector<Op> *cur_ops = nullptr;   // program being annotated (WAIT fills expectations into the posting ops)
    void init(int np, int nslots) { nprocs = np; files.assign(nslots, MFile()); disk.clear(); opidx = 0; pending_reads.clear(); snap_state.clear(); absent.clear(); }
};

// type helpers
int nc_type_size(int t);
int native_memtype(int nctype);
long long type_maxval(int nctype);     // largest positive small-integer value safely representable
long long mem_maxval(int mt);
bool type_ok_for_format(int nctype, int format);
long long default_fill_as_int(int nctype, bool &is_float, double &fval);   // for integer types the value; for float types fval
const char *nc_type_name(int t);

// selection helpers
long long acc_nelems(const Access &a);
// computes linear element indices of the selection (record-major); returns false if the access is outside the model's supported forms
void acc_elems(const MVar &v, const Access &a, std::vector<long long> &out);
// validity predicate: expected return code of a get/put style request (documented precedence)
int predict_access_rc(const MFile &f, int rank, int varidx_raw, const Access &a, bool is_read, int kind, bool coll, bool strict, bool &fatal);

// the annotator: returns false if the op is skipped
bool model_step(Model &m, Op &op);
void annotate(Model &m, Program &p);   // resets the model, walks all ops
long long value_for(int opidx, int rank, long long k, long long maxv);
void ensure_records(MVar &v, long long nrec);
std::string nfc_lite(const std::string &s);
