// C18 cases: definitions with sizes around the format limits + accesses at huge offsets (see bigcase.cpp)
#pragma once
#include "model.hpp"
#include <functional>
struct BigCase {
    int format = 1;
    std::vector<long long> dimlen;                      // 0 = the unlimited dimension
    struct Var { int type = NC_INT; std::vector<int> dimids; };
    std::vector<Var> vars;
    struct Acc { int var = 0, mode = 0 /* 0 blocking vara, 1 iput + wait_all, 2 blocking vars */, writer = 0; std::vector<long long> start, count, stride; };
    std::vector<Acc> acc;
};
BigCase bigcase_decode(const std::vector<long long> &v);
std::vector<long long> bigcase_encode(const BigCase &c);
std::string bigcase_text(const BigCase &c);
int bigcase_expect_enddef(const BigCase &c, std::string &why);
void run_bigcase(const Op &op, int rank, int nprocs, const std::function<void(const char *, const std::string &)> &fail);
