// C18 cases: definitions with sizes around the format limits + accesses at huge offsets (see bigcase.cpp)
#pragma once
#include "model.hpp"
#include <functional>
struct BigCase {
    int format = 1;
    std::vector<long long> dimlen;                      // 0 = the unlimited dimension
    struct Var { int type = NC_INT; std::vector<int> dimids; };
    std::vector<Var> vars;
    struct Acc { int var = 0, mode = 0, writer = 0; std::vector<long long> start, count, stride; };
    std::vector<Acc> acc;
    int split = 0;   // > 0: the first `split` variables are defined in a first define-mode session (enddef), the others after ncmpi_redef
    int aggr = 0;    // > 0: the file is created with hint nc_num_aggrs_per_node = aggr (intra-node write aggregation)
};
// access modes: 0 blocking collective vara, 1 iput + wait_all (completes every pending request of the rank), 2 blocking vars, 3 iput left pending until the next mode-1 access (or the end),
// 4 + 5: one collective put call in which rank `writer` of the mode-4 access and rank `writer` of the directly following mode-5 access (same variable) each write their own block
BigCase bigcase_decode(const std::vector<long long> &v);
std::vector<long long> bigcase_encode(const BigCase &c);
std::string bigcase_text(const BigCase &c);
int bigcase_expect_enddef(const BigCase &c, std::string &why);
void run_bigcase(const Op &op, int rank, int nprocs, const std::function<void(const char *, const std::string &)> &fail);
