// A profile = one property's workload generator + oracle set + non-triviality rule.
#pragma once
#include "exec.hpp"
#include "gen.hpp"
#include <functional>

struct Profile {
    std::string id, level, rule, technique;
    std::function<Program(uint64_t seed, bool thorough)> gen;
    // runs the program (possibly several times / against a second configuration) and returns the result carrying any violation
    std::function<RunResult(Program &)> check;
    // optional: further programs derived from a clean base run (fault enumeration)
    std::function<std::vector<Program>(const Program &, const RunResult &, bool thorough)> variants;
    std::function<bool(const Program &, const RunResult &)> nontrivial;
    std::vector<std::string> assumptions;
    std::vector<std::string> fault_kinds;     // kinds this profile injects
    std::string real_stub = "real: src/dispatchers, src/drivers/common, src/drivers/ncmpio, src/drivers/ncbbio (rebuilt from /repo working tree); "
                            "stub: MPI + MPI-IO (simmpi), file system (SimFS), environment, clock; not simulated: nc4io/adios/subfiling, Fortran/C++ bindings, utilities";
    int quick_s = 40, thorough_s = 600;
    bool use_asan_in_thorough = true;
    bool exhaustive = false;
    long space_seeds = 0;      // >0: seeds 1..space_seeds enumerate a finite space completely (the check reports exhaustive=true once all were run)
};

const Profile *find_profile(const std::string &id);
std::vector<std::string> all_profile_ids();
RunResult default_check(Program &p, const RunOpts &o);
