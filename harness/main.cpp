#include "sim.hpp"
#include <cstdio>
#include <cstdlib>
#include <cstring>
#include <string>

int smoke_main(int nprocs, uint64_t seed, bool verbose);
int check_main(int argc, char **argv);

extern "C" __attribute__((used)) const char *__asan_default_options() { return "exitcode=77:detect_leaks=0:abort_on_error=0:allocator_may_return_null=1:detect_stack_use_after_return=0"; }
extern "C" __attribute__((used)) const char *__ubsan_default_options() { return "print_stacktrace=1:halt_on_error=1:exitcode=77"; }

int main(int argc, char **argv) {
    sim::globals_init();
    if (argc >= 2 && !strcmp(argv[1], "smoke")) {
        int n = argc > 2 ? atoi(argv[2]) : 2; int fails = 0;
        long seeds = argc > 3 ? atol(argv[3]) : 5;
        for (long s = 0; s < seeds; s++) fails += smoke_main(n, 1000 + s, argc > 4);
        return fails ? 1 : 0;
    }
    return check_main(argc, argv);
}
