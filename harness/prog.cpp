#include "prog.hpp"
#include "model.hpp"
#include "bigcase.hpp"

static Json acc_json(const Access &a) {
    Json j = Json::obj();
    j.set("active", a.active).set("form", a.form).set("start", Json::from(a.start)).set("count", Json::from(a.count));
    if (!a.stride.empty()) j.set("stride", Json::from(a.stride));
    if (!a.imap.empty()) j.set("imap", Json::from(a.imap));
    if (!a.nstart.empty()) { Json s = Json::arr(), c = Json::arr(); for (auto &x : a.nstart) s.push(Json::from(x)); for (auto &x : a.ncount) c.push(Json::from(x)); j.set("nstart", s).set("ncount", c); }
    j.set("memtype", a.memtype).set("flexible", a.flexible).set("bufkind", a.bufkind).set("invalid", a.invalid);
    if (a.vrank >= 0) j.set("vrank", a.vrank);
    if (a.erange >= 0) j.set("erange", a.erange);
    return j;
}
static Access acc_from(const Json &j) {
    Access a; a.active = j.at("active").num(1); a.form = (int)j.at("form").num(); a.start = j.at("start").ints(); a.count = j.at("count").ints();
    a.stride = j.at("stride").ints(); a.imap = j.at("imap").ints();
    for (auto &x : j.at("nstart").a) a.nstart.push_back(x.ints()); for (auto &x : j.at("ncount").a) a.ncount.push_back(x.ints());
    a.memtype = (int)j.at("memtype").num(); a.flexible = j.at("flexible").num(); a.bufkind = (int)j.at("bufkind").num(); a.invalid = (int)j.at("invalid").num(); a.vrank = (int)j.at("vrank").num(-1); a.erange = (int)j.at("erange").num(-1);
    return a;
}
static Json op_json(const Op &op) {
    Json j = Json::obj();
    j.set("kind", op_kind_name[op.kind]).set("file", op.file);
    if (op.var) j.set("var", op.var); if (op.dim) j.set("dim", op.dim);
    if (!op.name.empty()) j.set("name", op.name); if (!op.name2.empty()) j.set("name2", op.name2);
    bool anya = false; for (auto x : op.a) if (x) anya = true;
    if (anya) { Json a = Json::arr(); for (auto x : op.a) a.push(x); j.set("a", a); }
    if (!op.dims.empty()) j.set("dims", Json::from(op.dims));
    if (op.kind == OP_PUT_ATT || op.kind == OP_BIGCASE) { j.set("att_type", op.att.type).set("att_v", Json::from(op.att.v)); }
    if (op.alt_rank >= 0) j.set("alt_rank", op.alt_rank).set("alt_name", op.alt_name).set("alt_val", op.alt_val);
    if (!op.coll) j.set("coll", false);
    if (!op.acc.empty()) { Json a = Json::arr(); for (auto &x : op.acc) a.push(acc_json(x)); j.set("acc", a); }
    if (!op.waits.empty()) { Json a = Json::arr(); for (auto &w : op.waits) { Json o = Json::obj(); o.set("active", w.active).set("mode", w.mode).set("slots", Json::from(w.slots)); if (w.nostatus) o.set("nostatus", true); a.push(o); } j.set("waits", a); }
    if (!op.hints.empty()) { Json h = Json::obj(); for (auto &kv : op.hints) h.set(kv.first, kv.second); j.set("hints", h); }
    if (op.only_rank >= 0) j.set("only_rank", op.only_rank);
    return j;
}
static Op op_from(const Json &j) {
    Op op; std::string k = j.at("kind").str();
    for (int i = 0; i < OP_KIND_COUNT; i++) if (k == op_kind_name[i]) op.kind = i;
    op.file = (int)j.at("file").num(); op.var = (int)j.at("var").num(); op.dim = (int)j.at("dim").num(); op.name = j.at("name").str(); op.name2 = j.at("name2").str();
    auto a = j.at("a").ints(); for (size_t i = 0; i < a.size() && i < 6; i++) op.a[i] = a[i];
    op.dims = j.at("dims").ints(); op.att.type = (int)j.at("att_type").num(NC_INT); op.att.v = j.at("att_v").ints();
    op.coll = j.has("coll") ? (bool)j.at("coll").num() : true;
    op.alt_rank = (int)j.at("alt_rank").num(-1); op.alt_name = j.at("alt_name").str(); op.alt_val = j.at("alt_val").num();
    for (auto &x : j.at("acc").a) op.acc.push_back(acc_from(x));
    for (auto &x : j.at("waits").a) { WaitSpec w; w.active = x.at("active").num(1); w.mode = (int)x.at("mode").num(); w.nostatus = x.at("nostatus").num() != 0; for (auto s : x.at("slots").ints()) w.slots.push_back((int)s); op.waits.push_back(w); }
    for (auto &kv : j.at("hints").o) op.hints[kv.first] = kv.second.str();
    op.only_rank = j.has("only_rank") ? (int)j.at("only_rank").num() : -1;
    return op;
}
Json program_to_json(const Program &p) {
    Json j = Json::obj();
    j.set("seed", (long long)p.seed).set("profile", p.cfg.profile);
    Json c = Json::obj(); const sim::SimConfig &s = p.cfg.sim;
    c.set("nprocs", s.nprocs).set("node_of", Json::from(s.node_of)).set("deviate", s.deviate).set("eager_coll", s.eager_coll).set("eager_send", s.eager_send).set("sync_fcoll", s.sync_fcoll);
    Json env = Json::obj(); for (auto &kv : s.env) env.set(kv.first, kv.second); c.set("env", env);
    Json kn = Json::obj(); for (auto &kv : s.knobs) kn.set(kv.first, kv.second); c.set("knobs", kn);
    c.set("explicit_schedule", s.explicit_schedule);
    Json dv = Json::arr(); for (auto &d : s.deviations) { Json e = Json::arr(); e.push(d.first); e.push(d.second); dv.push(e); } c.set("deviations", dv);
    c.set("starve_rank", s.starve_rank).set("starve_from", s.starve_from).set("starve_len", s.starve_len).set("max_steps", s.max_steps);
    c.set("format", p.cfg.format).set("flags", p.cfg.flags);
    j.set("config", c);
    Json ops = Json::arr(); for (auto &op : p.ops) ops.push(op_json(op)); j.set("ops", ops);
    Json fl = Json::arr();
    for (auto &f : p.faults) { Json o = Json::obj(); o.set("kind", sim::fault_kind_name[f.kind]).set("rank", f.rank).set("op", f.op).set("nth", f.nth).set("errclass", f.errclass).set("arg", f.arg); fl.push(o); }
    j.set("faults", fl);
    if (!p.preload.empty()) { Json pl = Json::arr(); for (auto &f : p.preload) { std::string hex; char b[4]; for (auto c : f.second) { snprintf(b, sizeof b, "%02x", c); hex += b; } Json o = Json::obj(); o.set("path", f.first).set("hex", hex); pl.push(o); } j.set("preload", pl); }
    return j;
}
Program program_from_json(const Json &j) {
    Program p; p.seed = (uint64_t)j.at("seed").num(); p.cfg.profile = j.at("profile").str();
    const Json &c = j.at("config"); sim::SimConfig &s = p.cfg.sim;
    s.nprocs = (int)c.at("nprocs").num(1); for (auto x : c.at("node_of").ints()) s.node_of.push_back((int)x);
    s.deviate = c.at("deviate").dbl(); s.eager_coll = c.at("eager_coll").dbl(0.5); s.eager_send = c.at("eager_send").dbl(0.5); s.sync_fcoll = c.at("sync_fcoll").dbl(0.5);
    for (auto &kv : c.at("env").o) s.env[kv.first] = kv.second.str();
    for (auto &kv : c.at("knobs").o) s.knobs[kv.first] = (long)kv.second.num();
    s.explicit_schedule = c.at("explicit_schedule").num();
    for (auto &d : c.at("deviations").a) s.deviations.push_back({(long)d.a[0].num(), (int)d.a[1].num()});
    s.starve_rank = (int)c.at("starve_rank").num(-1); s.starve_from = (long)c.at("starve_from").num(); s.starve_len = (long)c.at("starve_len").num(); s.max_steps = (long)c.at("max_steps").num(200000);
    p.cfg.format = (int)c.at("format").num(1); p.cfg.flags = c.at("flags").num();
    for (auto &o : j.at("ops").a) p.ops.push_back(op_from(o));
    for (auto &o : j.at("faults").a) {
        sim::Fault f; std::string k = o.at("kind").str(); for (int i = 0; i < sim::F_KIND_COUNT; i++) if (k == sim::fault_kind_name[i]) f.kind = i;
        f.rank = (int)o.at("rank").num(); f.op = (int)o.at("op").num(); f.nth = (int)o.at("nth").num(); f.errclass = (int)o.at("errclass").num(); f.arg = (int)o.at("arg").num(); p.faults.push_back(f);
    }
    for (auto &o : j.at("preload").a) { std::string hex = o.at("hex").str(); std::vector<uint8_t> b; for (size_t i = 0; i + 1 < hex.size(); i += 2) b.push_back((uint8_t)strtoul(hex.substr(i, 2).c_str(), nullptr, 16)); p.preload.push_back({o.at("path").str(), b}); }
    return p;
}
static std::string vec_s(const std::vector<long long> &v) { std::string s = "["; for (size_t i = 0; i < v.size(); i++) { if (i) s += ","; s += std::to_string(v[i]); } return s + "]"; }
std::string op_to_string(const Op &op, int rank) {
    std::string s = std::string(op_kind_name[op.kind]) + "(f" + std::to_string(op.file);
    if (op.alt_rank >= 0 && op.note == "multidefine") s += ",DISAGREE@r" + std::to_string(op.alt_rank) + (op.alt_name.empty() ? ":" + std::to_string(op.alt_val) : ":'" + op.alt_name + "'");
    switch (op.kind) {
    case OP_CREATE: s += ",'" + op.name + "',CDF-" + std::to_string(op.a[0]); break;
    case OP_OPEN: s += ",'" + op.name + "'," + (op.a[0] ? "rw" : "ro"); break;
    case OP_MANYFILES: s += ",create " + std::to_string(op.a[0]) + ",close " + std::to_string(op.a[1]) + " (order " + std::to_string(op.a[2]) + "),fill up"; break;
    case OP_BIGCASE: s += "," + bigcase_text(bigcase_decode(op.att.v)); break;
    case OP_DEF_DIM: s += ",'" + op.name + "'," + std::to_string(op.a[0]); break;
    case OP_DEF_VAR: s += ",'" + op.name + "'," + nc_type_name((int)op.a[0]) + ",dims=" + vec_s(op.dims); break;
    case OP_FILL_VAR_REC: s += ",var=" + std::to_string(op.var) + ",rec=" + std::to_string(op.a[0]) + (op.a[1] ? " (odd ranks: rec=" + std::to_string(op.a[0] + op.a[1]) + ")" : ""); break;
    case OP_DEF_VAR_FILL: s += ",var=" + std::to_string(op.var) + (op.a[0] ? ",NOFILL" : ",FILL") + (op.a[1] && !op.a[0] ? ",value=" + std::to_string(op.a[2]) : ""); break;
    case OP_SET_FILL: s += op.a[0] ? ",NC_FILL" : ",NC_NOFILL"; break;
    case OP_COPY_ATT: s += ",var=" + std::to_string(op.var) + ",'" + op.name + "'->f" + std::to_string(op.a[0]) + ",var=" + std::to_string(op.a[1]); break;
    case OP_PUT_ATT: s += ",var=" + std::to_string(op.var) + ",'" + op.name + "'," + nc_type_name(op.att.type) + ",n=" + std::to_string(op.att.v.size()); break;
    case OP_PUT: case OP_GET: case OP_IPUT: case OP_IGET: case OP_BPUT: {
        static const char *fn[] = {"var1", "var", "vara", "vars", "varm", "varn", "vard"};
        s += ",var=" + std::to_string(op.var) + (op.coll ? ",coll" : ",indep");
        for (size_t r = 0; r < op.acc.size(); r++) {
            if (rank >= 0 && (int)r != rank) continue;
            const Access &a = op.acc[r];
            s += " r" + std::to_string(r) + ":" + (a.active ? std::string(fn[a.form]) + "/" + mt_name(a.memtype) + (a.flexible ? "/flex" + std::to_string(a.bufkind) : "") + " s=" + vec_s(a.start) + " c=" + vec_s(a.count) + (a.stride.empty() ? "" : " st=" + vec_s(a.stride)) + (a.imap.empty() ? "" : " im=" + vec_s(a.imap)) + (a.nstart.empty() ? "" : " nsub=" + std::to_string(a.nstart.size())) + (a.invalid ? " INVALID" + std::to_string(a.invalid) : "") : "-");
        }
        break;
    }
    case OP_WAIT: case OP_CANCEL: s += op.coll ? ",all" : ",indep"; for (size_t r = 0; r < op.waits.size(); r++) { if (rank >= 0 && (int)r != rank) continue; auto &w = op.waits[r]; s += " r" + std::to_string(r) + ":" + (!w.active ? "-" : w.mode ? "ALL" + std::to_string(w.mode) : "["); if (w.active && !w.mode) { for (auto x : w.slots) s += std::to_string(x) + ","; s += "]"; } } break;
    default: if (op.var) s += ",var=" + std::to_string(op.var); if (!op.name.empty()) s += ",'" + op.name + "'"; if (!op.name2.empty()) s += "->'" + op.name2 + "'"; if (op.a[0]) s += "," + std::to_string(op.a[0]); break;
    }
    s += ")"; if (op.skip) s += "[skipped]";
    return s;
}
std::string program_to_text(const Program &p, size_t maxops) {
    std::string s = "nprocs=" + std::to_string(p.cfg.sim.nprocs) + " seed=" + std::to_string(p.seed) + ":";
    size_t n = 0; for (auto &op : p.ops) { if (op.skip) continue; if (n++ >= maxops) { s += " ..."; break; } s += " " + op_to_string(op) + ";"; }
    return s;
}
