// check driver: seeded exploration with worker processes, determinism gate, shrinking, replay files,
// known findings, evidence.
#include "profile.hpp"
#include <algorithm>
#include <chrono>
#include <csignal>
#include <cstdio>
#include <cstdlib>
#include <cstring>
#include <fstream>
#include <set>
#include <sstream>
#include <sys/stat.h>
#include <sys/wait.h>
#include <fcntl.h>
#include <poll.h>
#include <unistd.h>

static double now_s() { return std::chrono::duration<double>(std::chrono::steady_clock::now().time_since_epoch()).count(); }
static std::string slurp(const std::string &path) { std::ifstream f(path); std::stringstream ss; ss << f.rdbuf(); return ss.str(); }
static void spit(const std::string &path, const std::string &s) { std::ofstream f(path); f << s; }
static std::string self_exe() { char b[4096]; ssize_t n = readlink("/proc/self/exe", b, sizeof b - 1); b[n > 0 ? n : 0] = 0; return b; }
static std::string verif_dir() { const char *e = getenv("VERIF_DIR"); return e ? e : "/verif"; }

RunResult default_check(Program &p, const RunOpts &o) { return run_program(p, o); }

// ------------------------------------------------------------------ known findings
struct Known { std::string property, match, what, replay, status; };
static std::vector<Known> load_known() {
    std::vector<Known> out; std::string txt = slurp(verif_dir() + "/findings/known_findings.json");
    if (txt.empty()) return out;
    Json j = Json::parse(txt);
    for (auto &e : j.at("findings").a) { Known k; k.property = e.at("property").str(); k.match = e.at("match").str(); k.what = e.at("what").str(); k.replay = e.at("replay").str(); k.status = e.at("status").str("known"); out.push_back(k); }
    return out;
}
// a violation matches a known finding when every '&&'-separated fragment of 'match' occurs in "signature | detail"
static bool matches_known(const Known &k, const std::string &prop, const sim::ViolationInfo &v) {
    if (k.status != "known" || k.property != prop) return false;
    std::string hay = violation_signature(v) + " | " + v.kind + " | " + v.detail;
    size_t pos = 0; std::string m = k.match;
    while (true) { size_t e = m.find("&&", pos); std::string frag = m.substr(pos, e == std::string::npos ? std::string::npos : e - pos); if (!frag.empty() && hay.find(frag) == std::string::npos) return false; if (e == std::string::npos) break; pos = e + 2; }
    return true;
}

// ------------------------------------------------------------------ shrinking
struct Failing { Program p; RunResult res; std::string sig; };
static std::string run_sig(const Profile &pf, Program &p, RunResult *out = nullptr) {
    Program q = p; RunResult r = pf.check(q); if (out) { *out = r; p = q; } return r.signature();
}
static void drop_rank(Program &p) {
    int np = p.cfg.sim.nprocs - 1; p.cfg.sim.nprocs = np; p.cfg.sim.node_of.resize(np);
    for (auto &op : p.ops) { if (!op.acc.empty()) op.acc.resize(np); if (!op.waits.empty()) op.waits.resize(np); if (op.only_rank >= np) op.only_rank = 0; }
    std::vector<sim::Fault> fl; for (auto &f : p.faults) if (f.rank < np) fl.push_back(f); p.faults = fl;
    if (p.cfg.sim.starve_rank >= np) p.cfg.sim.starve_rank = -1;
}
// does the program crash the process (signal / sanitizer exit)? evaluated in a forked child
static bool crashes_in_child(const Profile &pf, const Program &p) {
    fflush(stdout); fflush(stderr);
    pid_t pid = fork();
    if (pid == 0) { int dn = open("/dev/null", O_WRONLY); if (dn >= 0) { dup2(dn, 1); dup2(dn, 2); } Program c = p; pf.check(c); _exit(0); }
    int st = 0; waitpid(pid, &st, 0);
    return WIFSIGNALED(st) || (WIFEXITED(st) && (WEXITSTATUS(st) == 77 || WEXITSTATUS(st) == 134));
}
static Program shrink(const Profile &pf, const Program &orig, const std::string &sig, int budget, int &reruns) {
    Program best = orig; reruns = 0;
    bool crash_mode = (sig == "crash");
    auto run_once = [&](Program &c, RunResult *out) -> std::string { if (crash_mode) return crashes_in_child(pf, c) ? "crash" : ""; return run_sig(pf, c, out); };
    auto still = [&](Program &cand) { if (reruns >= budget) return false; reruns++; Program c = cand; return run_once(c, nullptr) == sig; };
    // faults are attached to op indices: removing ops must renumber them
    auto remove_ops = [&](const Program &p, size_t lo, size_t hi) {
        Program c = p; c.ops.erase(c.ops.begin() + lo, c.ops.begin() + hi);
        std::vector<sim::Fault> fl; for (auto f : c.faults) { if (f.op >= (int)lo && f.op < (int)hi) continue; if (f.op >= (int)hi) f.op -= (int)(hi - lo); fl.push_back(f); } c.faults = fl; return c;
    };
    // 1. ddmin over ops
    for (size_t chunk = std::max<size_t>(1, best.ops.size() / 2); chunk >= 1; chunk /= 2) {
        bool progress = true;
        while (progress && reruns < budget) {
            progress = false;
            for (size_t lo = 0; lo < best.ops.size() && reruns < budget;) {
                size_t hi = std::min(best.ops.size(), lo + chunk);
                Program c = remove_ops(best, lo, hi);
                if (still(c)) { best = c; progress = true; } else lo = hi;
            }
        }
        if (chunk == 1) break;
    }
    // 2. drop faults
    for (size_t i = 0; i < best.faults.size() && reruns < budget;) { Program c = best; c.faults.erase(c.faults.begin() + i); if (still(c)) best = c; else i++; }
    // 3. fewer ranks
    while (best.cfg.sim.nprocs > 1 && reruns < budget) { Program c = best; drop_rank(c); if (still(c)) best = c; else break; }
    // 4. simpler configuration
    { Program c = best; c.cfg.sim.knobs.clear(); if (!best.cfg.sim.knobs.empty() && still(c)) best = c; }
    { Program c = best; c.cfg.sim.env.clear(); if (!best.cfg.sim.env.empty() && still(c)) best = c; }
    { Program c = best; c.cfg.sim.starve_rank = -1; if (best.cfg.sim.starve_rank >= 0 && still(c)) best = c; }
    for (auto &op : best.ops) if (!op.hints.empty() && reruns < budget) { Program c = best; for (auto &o2 : c.ops) if (&o2 - &c.ops[0] == &op - &best.ops[0]) o2.hints.clear(); if (still(c)) { best = c; } }
    // simpler accesses: typed, contiguous buffers
    for (size_t i = 0; i < best.ops.size() && reruns < budget; i++) {
        bool any = false; for (auto &a : best.ops[i].acc) if (a.flexible) any = true;
        if (!any) continue;
        Program c = best; for (auto &a : c.ops[i].acc) if (a.form != F_VARD) { a.flexible = false; a.bufkind = 0; }
        if (still(c)) best = c;
    }
    // 5. explicit schedule, then drop deviations
    if (best.cfg.sim.nprocs > 1 && !best.cfg.sim.explicit_schedule && reruns < budget) {
        Program c = best; RunResult r; reruns++;
        if (!crash_mode && run_sig(pf, c, &r) == sig) {
            Program e = best; e.cfg.sim.explicit_schedule = true; e.cfg.sim.deviations = r.deviations; e.cfg.sim.deviate = 0; e.cfg.sim.starve_rank = -1;
            if (still(e)) {
                best = e;
                { Program z = best; z.cfg.sim.deviations.clear(); if (!best.cfg.sim.deviations.empty() && still(z)) best = z; }
                for (size_t chunk = std::max<size_t>(1, best.cfg.sim.deviations.size() / 2); chunk >= 1 && !best.cfg.sim.deviations.empty(); chunk /= 2) {
                    for (size_t lo = 0; lo < best.cfg.sim.deviations.size() && reruns < budget;) {
                        Program z = best; size_t hi = std::min(z.cfg.sim.deviations.size(), lo + chunk);
                        z.cfg.sim.deviations.erase(z.cfg.sim.deviations.begin() + lo, z.cfg.sim.deviations.begin() + hi);
                        if (still(z)) best = z; else lo = hi;
                    }
                    if (chunk == 1) break;
                }
            }
        }
    }
    // 6. one more pass of single-op removal (config changes may have unlocked it)
    for (size_t lo = 0; lo < best.ops.size() && reruns < budget;) { Program c = remove_ops(best, lo, lo + 1); if (still(c)) best = c; else lo++; }
    return best;
}

static std::string write_replay(const std::string &prop, const Program &p, const RunResult &r, const std::string &sig, const std::string &dir, const std::string &tag) {
    mkdir((verif_dir() + "/out").c_str(), 0755); mkdir(dir.c_str(), 0755);
    Json j = Json::obj();
    j.set("property", prop).set("signature", sig).set("violation_kind", r.violations.empty() ? "" : r.violations[0].kind)
        .set("violation_detail", r.violations.empty() ? "" : r.violations[0].detail).set("event_hash", (long long)r.st.ev_hash).set("program", program_to_json(p))
        .set("readable", program_to_text(p, 60));
    std::string path = dir + "/" + prop + "-" + tag + ".json";
    spit(path, j.dump(1));
    return path;
}

// replay in this process: returns 1 if the recorded violation class reproduces
static int replay_file(const std::string &path, bool quiet) {
    std::string txt = slurp(path); if (txt.empty()) { fprintf(stderr, "replay: cannot read %s\n", path.c_str()); return 2; }
    Json j = Json::parse(txt); std::string prop = j.at("property").str();
    const Profile *pf = find_profile(prop); if (!pf) { fprintf(stderr, "replay: unknown property %s\n", prop.c_str()); return 2; }
    Program p = program_from_json(j.at("program"));
    RunResult r = pf->check(p);
    std::string sig = r.signature(), want = j.at("signature").str();
    if (!quiet) {
        printf("replay %s: %zu ops, %d ranks\n  program: %s\n", path.c_str(), p.ops.size(), p.cfg.sim.nprocs, program_to_text(p, 60).c_str());
        for (auto &v : r.violations) printf("  violation %s: %s\n", v.kind.c_str(), v.detail.c_str());
        if (getenv("VERIF_TRACE")) fputs(r.trace.c_str(), stdout);
        if (getenv("VERIF_DEBUG")) for (size_t i = 0; i < p.ops.size(); i++) { const Op &op = p.ops[i]; printf("  #%zu %s%s exp_rc=%d", i, op.skip ? "[skip] " : "", op_to_string(op).c_str(), op.exp_rc); for (size_t r = 0; r < op.acc.size(); r++) { printf(" | r%zu rc=%d vals=", r, op.acc[r].exp_rc); for (size_t k = 0; k < op.acc[r].values.size() && k < 6; k++) printf("%lld/%d ", op.acc[r].values[k], k < op.acc[r].estate.size() ? op.acc[r].estate[k] : -1); } printf("\n"); }
    }
    if (!sig.empty() && sig == want) { printf("VIOLATION property=%s replay=%s\n", prop.c_str(), path.c_str()); printf("REPLAY-HASH %016llx\n", (unsigned long long)r.st.ev_hash); return 1; }
    if (!sig.empty()) { printf("REPLAY-DIFFERENT property=%s got=%s want=%s\n", prop.c_str(), sig.c_str(), want.c_str()); return 3; }
    printf("NOT-REPRODUCED property=%s replay=%s\n", prop.c_str(), path.c_str());
    return 0;
}
// replay in a fresh process (also catches crashes); returns exit status, 128+sig for signals
static int replay_fresh(const std::string &path, std::string *out = nullptr) {
    std::string cmd = self_exe() + " replay " + path + " --quiet 2>&1";
    FILE *f = popen(cmd.c_str(), "r"); if (!f) return 2;
    char buf[4096]; std::string o; while (fgets(buf, sizeof buf, f)) o += buf;
    int st = pclose(f); if (out) *out = o;
    if (WIFSIGNALED(st)) return 128 + WTERMSIG(st);
    return WEXITSTATUS(st);
}

// ------------------------------------------------------------------ worker protocol
// worker -> parent lines:  "S <seed>"  start of seed;  "V <seed> <variant> <sig>\t<detail>" violation; "E <json>" end-of-batch stats
struct WStats {
    long evals = 0, nontrivial = 0, steps = 0, events = 0, switches = 0, coll = 0, fileio = 0, bytes = 0; long fault_fired[sim::F_KIND_COUNT] = {0};
    std::map<std::string, long> probes; std::map<std::string, long> sites; long known_suppressed = 0;
    std::set<uint64_t> distinct;
    std::vector<std::string> samples;
};
static uint64_t prog_shape_hash(const Program &p) { uint64_t h = 1469598103934665603ULL; for (auto &op : p.ops) if (!op.skip) { h ^= (uint64_t)op.kind + 1; h *= 1099511628211ULL; for (auto &a : op.acc) { h ^= (uint64_t)(a.form * 7 + a.memtype * 31 + a.active); h *= 1099511628211ULL; } } h ^= p.cfg.sim.nprocs; return h * 1099511628211ULL; }

struct Found { uint64_t seed; int variant; std::string sig, detail, kind; };

static void worker_loop(const Profile &pf, uint64_t base, int w, int W, double deadline, long max_seeds, bool thorough, int outfd, const std::vector<Known> &known) {
    FILE *out = fdopen(outfd, "w");
    WStats st; long nfound = 0; long seeds_done = 0;
    auto account = [&](const Program &p, const RunResult &r) {
        st.evals++; st.steps += r.st.steps; st.events += r.st.events; st.switches += r.st.switches; st.coll += r.st.coll; st.fileio += r.st.fileio; st.bytes += r.st.bytes_written + r.st.bytes_read;
        for (int k = 0; k < sim::F_KIND_COUNT; k++) st.fault_fired[k] += r.st.fault_fired[k];
        for (auto &kv : r.probes) st.probes[kv.first] += kv.second;
        for (auto &f : r.faults) if (f.fired && !f.site.empty()) st.sites[f.site.substr(0, f.site.find('<')) + "/" + sim::errclass_name(f.errclass)]++;
        bool nt = !pf.nontrivial || pf.nontrivial(p, r);
        if (nt) { st.nontrivial++; uint64_t h = prog_shape_hash(p) ^ (r.st.ilv_hash * 0x9e3779b97f4a7c15ULL); for (auto &f : p.faults) h = h * 31 + f.rank * 7 + f.op * 131 + f.nth * 17 + f.errclass; st.distinct.insert(h); }
        if (st.samples.size() < 3 && nt) st.samples.push_back(program_to_text(p, 25));
    };
    auto report = [&](uint64_t seed, int variant, const RunResult &r) {
        for (auto &k : known) if (matches_known(k, pf.id, r.violations[0])) { st.known_suppressed++; return; }
        if (nfound++ > 20) return;
        std::string d = r.violations[0].detail; for (auto &c : d) if (c == '\n' || c == '\t') c = ' ';
        fprintf(out, "V %llu %d %s\t%s\t%s\n", (unsigned long long)seed, variant, r.signature().c_str(), r.violations[0].kind.c_str(), d.c_str()); fflush(out);
    };
    for (long i = 0;; i++) {
        if (max_seeds > 0 && i * W + w >= max_seeds) break;
        if (max_seeds <= 0 && now_s() > deadline) break;
        uint64_t seed = base + (uint64_t)(i * W + w);
        fprintf(out, "S %llu\n", (unsigned long long)seed); fflush(out);
        Program p = pf.gen(seed, thorough);
        RunResult r = pf.check(p);
        account(p, r); seeds_done++;
        if (!r.violations.empty()) { report(seed, -1, r); continue; }
        if (pf.variants) {
            std::vector<Program> vs = pf.variants(p, r, thorough);
            for (size_t k = 0; k < vs.size(); k++) {
                RunResult vr = pf.check(vs[k]); account(vs[k], vr);
                if (!vr.violations.empty()) report(seed, (int)k, vr);
                if (max_seeds <= 0 && now_s() > deadline + 30) break;
            }
        }
    }
    // end-of-batch stats
    Json e = Json::obj();
    e.set("seeds_done", seeds_done).set("evals", st.evals).set("nontrivial", st.nontrivial).set("steps", st.steps).set("events", st.events).set("switches", st.switches).set("coll", st.coll).set("fileio", st.fileio).set("bytes", st.bytes).set("known_suppressed", st.known_suppressed);
    Json ff = Json::obj(); for (int k = 0; k < sim::F_KIND_COUNT; k++) ff.set(sim::fault_kind_name[k], st.fault_fired[k]); e.set("faults", ff);
    Json pr = Json::obj(); for (auto &kv : st.probes) pr.set(kv.first, kv.second); e.set("probes", pr);
    Json si = Json::obj(); for (auto &kv : st.sites) si.set(kv.first, kv.second); e.set("sites", si);
    Json sm = Json::arr(); for (auto &s : st.samples) sm.push(s); e.set("samples", sm);
    Json di = Json::arr(); for (auto h : st.distinct) di.push((long long)h); e.set("distinct", di);
    fprintf(out, "E %s\n", e.dump().c_str()); fflush(out);
    fclose(out);
}

struct WorkerProc { pid_t pid = -1; int fd = -1; std::string buf; uint64_t cur_seed = 0; bool have_seed = false; bool done = false; int w = 0; };

int check_main(int argc, char **argv) {
    if (argc >= 3 && !strcmp(argv[1], "replay")) { bool quiet = argc > 3 && !strcmp(argv[3], "--quiet"); return replay_file(argv[2], quiet); }
    if (argc >= 2 && !strcmp(argv[1], "list")) { for (auto &id : all_profile_ids()) printf("%s\n", id.c_str()); return 0; }
    if (argc >= 5 && !strcmp(argv[1], "mkreplay")) {   // mkreplay <id> <seed> <out.json>: write the (unshrunk) violating program of a seed as a replay file
        const Profile *pf = find_profile(argv[2]); if (!pf) return 2; uint64_t sd = strtoull(argv[3], nullptr, 10); Program p = pf->gen(sd, false); RunResult r = pf->check(p);
        if (r.violations.empty()) { printf("seed %llu does not violate\n", (unsigned long long)sd); return 1; }
        Json j = Json::obj(); j.set("property", pf->id).set("signature", r.signature()).set("violation_kind", r.violations[0].kind).set("violation_detail", r.violations[0].detail).set("event_hash", (long long)r.st.ev_hash).set("program", program_to_json(p)).set("readable", program_to_text(p, 60));
        spit(argv[4], j.dump(1)); printf("%s: %s\n", argv[4], r.signature().c_str()); return 0; }
    if (argc >= 4 && !strcmp(argv[1], "sigs")) { const Profile *pf = find_profile(argv[2]); if (!pf) return 2; long n = atol(argv[3]); uint64_t b0 = argc > 4 ? strtoull(argv[4], nullptr, 10) : 1;
        for (long i = 0; i < n; i++) { Program p = pf->gen(b0 + i, false); RunResult r = pf->check(p); if (!r.violations.empty()) { std::string d = r.violations[0].detail; size_t c = d.find("): "); printf("%llu\t%s\t%s\n", (unsigned long long)(b0 + i), r.violations[0].kind.c_str(), (c == std::string::npos ? d : d.substr(c + 3)).substr(0, 110).c_str()); } } return 0; }
    if (argc >= 4 && !strcmp(argv[1], "crashtest")) { const Profile *pf = find_profile(argv[2]); if (!pf) return 2; Program p = pf->gen(strtoull(argv[3], nullptr, 10), false); printf("crashes_in_child=%d\n", (int)crashes_in_child(*pf, p)); return 0; }
    if (argc >= 4 && !strcmp(argv[1], "print")) { const Profile *pf = find_profile(argv[2]); if (!pf) return 2; Program p = pf->gen(strtoull(argv[3], nullptr, 10), argc > 4); Model m; annotate(m, p); printf("%s\n", program_to_text(p, 500).c_str()); return 0; }
    if (argc >= 4 && !strcmp(argv[1], "show")) {   // show <id> <seed>: print the generated program and run it once
        const Profile *pf = find_profile(argv[2]); if (!pf) return 2;
        Program p = pf->gen(strtoull(argv[3], nullptr, 10), argc > 4); RunResult r = pf->check(p);
        printf("%s\n", program_to_text(p, 200).c_str());
        for (auto &v : r.violations) printf("violation %s: %s\n", v.kind.c_str(), v.detail.c_str());
        printf("steps=%ld events=%ld hash=%016llx\n", r.st.steps, r.st.events, (unsigned long long)r.st.ev_hash);
        if (getenv("VERIF_TRACE")) { RunOpts o; o.trace = true; }
        return r.violations.empty() ? 0 : 1;
    }
    if (argc >= 3 && !strcmp(argv[1], "detgate")) {   // detgate <id> <nseeds>: every seed twice, event hashes must agree
        const Profile *pf = find_profile(argv[2]); if (!pf) return 2; long n = argc > 3 ? atol(argv[3]) : 200; uint64_t base = argc > 4 ? strtoull(argv[4], nullptr, 10) : 1;
        for (long i = 0; i < n; i++) { Program a = pf->gen(base + i, false), b = pf->gen(base + i, false); RunResult ra = pf->check(a), rb = pf->check(b); printf("%llu %016llx %s\n", (unsigned long long)(base + i), (unsigned long long)ra.st.ev_hash, ra.signature().c_str()); if (ra.st.ev_hash != rb.st.ev_hash || ra.signature() != rb.signature()) { printf("NONDETERMINISM seed=%llu\n", (unsigned long long)(base + i)); return 2; } }
        return 0;
    }
    if (argc < 3 || strcmp(argv[1], "check")) { fprintf(stderr, "usage: pncsim check <id> [--tier quick|thorough] [--seconds N] [--seeds N] [--workers W] | replay <file> | show <id> <seed> | detgate <id> <n> | smoke\n"); return 2; }
    std::string id = argv[2]; const Profile *pf = find_profile(id);
    if (!pf) { fprintf(stderr, "unknown property %s\n", id.c_str()); return 2; }
    bool thorough = false; double seconds = -1; long seeds = -1; int W = 16; std::string variant = "plain"; bool no_evidence = false; double scale = 1.0;
    if (getenv("VERIF_TIER") && !strcmp(getenv("VERIF_TIER"), "thorough")) thorough = true;
    for (int i = 3; i < argc; i++) {
        if (!strcmp(argv[i], "--tier") && i + 1 < argc) thorough = !strcmp(argv[++i], "thorough");
        else if (!strcmp(argv[i], "--seconds") && i + 1 < argc) seconds = atof(argv[++i]);
        else if (!strcmp(argv[i], "--seeds") && i + 1 < argc) seeds = atol(argv[++i]);
        else if (!strcmp(argv[i], "--workers") && i + 1 < argc) W = atoi(argv[++i]);
        else if (!strcmp(argv[i], "--variant") && i + 1 < argc) variant = argv[++i];
        else if (!strcmp(argv[i], "--no-evidence")) no_evidence = true;
        else if (!strcmp(argv[i], "--budget-scale") && i + 1 < argc) scale = atof(argv[++i]);
    }
    if (seconds < 0) seconds = thorough ? pf->thorough_s : pf->quick_s;
    seconds *= scale;
    uint64_t base = 1; if (getenv("VERIF_SEED")) base = strtoull(getenv("VERIF_SEED"), nullptr, 10);
    double t0 = now_s();
    printf("check %s tier=%s variant=%s base_seed=%llu budget=%.0fs workers=%d\n", id.c_str(), thorough ? "thorough" : "quick", variant.c_str(), (unsigned long long)base, seconds, W);
    fflush(stdout);

    std::vector<Known> known = load_known();
    int exit_code = 0; long violations = 0;
    // 0. listed findings: replay each; print KNOWN-FINDING if it still reproduces
    for (auto &k : known) {
        if (k.property != id || k.status != "known") continue;
        std::string path = verif_dir() + "/" + k.replay; std::string o; int rc = replay_fresh(path, &o);
        if (rc == 1) printf("KNOWN-FINDING: property=%s %s (replay %s)\n", id.c_str(), k.what.c_str(), k.replay.c_str());
        else printf("note: listed finding no longer reproduces (%s): %s\n", k.replay.c_str(), k.what.c_str());
    }
    fflush(stdout);

    // 1. exploration
    std::vector<WorkerProc> ws(W); std::vector<Found> found; std::vector<Json> ends; long crashes = 0;
    double deadline = now_s() + seconds;
    auto spawn = [&](int w, uint64_t from_base) {
        int pfd[2]; if (pipe(pfd)) { perror("pipe"); exit(2); }
        pid_t pid = fork();
        if (pid == 0) { close(pfd[0]); for (auto &o : ws) if (o.fd >= 0) close(o.fd); worker_loop(*pf, from_base, w, W, deadline, seeds, thorough, pfd[1], known); _exit(0); }
        close(pfd[1]); ws[w].pid = pid; ws[w].fd = pfd[0]; ws[w].buf.clear(); ws[w].done = false; ws[w].have_seed = false; ws[w].w = w;
    };
    for (int w = 0; w < W; w++) spawn(w, base);
    int alive = W;
    while (alive > 0) {
        std::vector<pollfd> pfds; std::vector<int> idx;
        for (int w = 0; w < W; w++) if (ws[w].fd >= 0) { pfds.push_back({ws[w].fd, POLLIN, 0}); idx.push_back(w); }
        if (pfds.empty()) break;
        poll(pfds.data(), pfds.size(), 1000);
        for (size_t k = 0; k < pfds.size(); k++) {
            if (!(pfds[k].revents & (POLLIN | POLLHUP))) continue;
            WorkerProc &wp = ws[idx[k]]; char b[65536]; ssize_t n = read(wp.fd, b, sizeof b);
            if (n > 0) {
                wp.buf.append(b, n); size_t pos;
                while ((pos = wp.buf.find('\n')) != std::string::npos) {
                    std::string line = wp.buf.substr(0, pos); wp.buf.erase(0, pos + 1);
                    if (line[0] == 'S') { wp.cur_seed = strtoull(line.c_str() + 2, nullptr, 10); wp.have_seed = true; }
                    else if (line[0] == 'V') { Found f; char *e; f.seed = strtoull(line.c_str() + 2, &e, 10); f.variant = (int)strtol(e, &e, 10); std::string rest = e + 1; size_t t1 = rest.find('\t'), t2 = rest.find('\t', t1 + 1); f.sig = rest.substr(0, t1); f.kind = rest.substr(t1 + 1, t2 - t1 - 1); f.detail = rest.substr(t2 + 1); found.push_back(f); }
                    else if (line[0] == 'E') { ends.push_back(Json::parse(line.substr(2))); wp.done = true; }
                }
            } else {
                close(wp.fd); wp.fd = -1; int st = 0; waitpid(wp.pid, &st, 0); alive--;
                if (!wp.done) {   // died mid-seed: that is itself a result
                    crashes++;
                    Found f; f.seed = wp.cur_seed; f.variant = -2; f.kind = "crash"; f.sig = "crash";
                    f.detail = WIFSIGNALED(st) ? "worker killed by signal " + std::to_string(WTERMSIG(st)) : "worker exited with status " + std::to_string(WEXITSTATUS(st)) + (WEXITSTATUS(st) == 77 ? " (sanitizer report)" : "");
                    found.push_back(f);
                    // restart after the crashing seed if time remains
                    if (now_s() < deadline && crashes < 40 && seeds < 0) { uint64_t nb = wp.cur_seed + W - (uint64_t)wp.w; spawn(wp.w, nb - (nb - base) % W); alive++; }
                }
            }
        }
    }
    // 2. aggregate
    WStats tot; std::set<uint64_t> distinct; std::vector<std::string> samples; long long min_worker_evals = -1;
    std::map<std::string, long> probes, sites, faults;
    for (auto &e : ends) {
        { long long se = e.at("seeds_done").num(); if (min_worker_evals < 0 || se < min_worker_evals) min_worker_evals = se; }
        tot.evals += e.at("evals").num(); tot.nontrivial += e.at("nontrivial").num(); tot.steps += e.at("steps").num(); tot.events += e.at("events").num(); tot.switches += e.at("switches").num();
        tot.coll += e.at("coll").num(); tot.fileio += e.at("fileio").num(); tot.bytes += e.at("bytes").num(); tot.known_suppressed += e.at("known_suppressed").num();
        for (auto &kv : e.at("faults").o) faults[kv.first] += kv.second.num();
        for (auto &kv : e.at("probes").o) probes[kv.first] += kv.second.num();
        for (auto &kv : e.at("sites").o) sites[kv.first] += kv.second.num();
        for (auto &s : e.at("samples").a) if (samples.size() < 3) samples.push_back(s.str());
        for (auto &h : e.at("distinct").a) distinct.insert((uint64_t)h.num());
    }
    // 3. violations: determinism gate, shrink, replay file, fresh-process replay
    std::set<std::string> reported; std::vector<std::string> replay_paths;
    std::sort(found.begin(), found.end(), [](const Found &a, const Found &b) { return a.seed < b.seed; });
    for (auto &f : found) {
        if (reported.count(f.sig) || reported.size() >= (size_t)(getenv("VERIF_MAXREPORT") ? atoi(getenv("VERIF_MAXREPORT")) : 4)) continue;
        reported.insert(f.sig);
        Program p = pf->gen(f.seed, thorough);
        if (f.kind == "crash") {
            // reproduce in a fresh process by replaying the unshrunk program(s) of that seed
            RunResult dummy; sim::ViolationInfo v; v.kind = "crash"; v.detail = f.detail; dummy.violations.push_back(v);
            if (f.variant >= 0 && pf->variants) { /* variant crashes are handled below */ }
            else if (crashes_in_child(*pf, p)) { int rr = 0; Program small = shrink(*pf, p, "crash", 200, rr); printf("  (crashing program shrunk %zu -> %zu ops in %d forked re-runs)\n  program: %s\n", p.ops.size(), small.ops.size(), rr, program_to_text(small, 40).c_str()); p = small; }
            std::string path = write_replay(id, p, dummy, "crash", verif_dir() + "/out/replay", std::to_string(f.seed) + "-crash");
            std::string o; int rc = replay_fresh(path, &o);
            if (rc >= 128 || rc == 77 || rc == 134) { printf("VIOLATION property=%s replay=%s\n  crash: %s (seed %llu; the replay crashes again in a fresh process, exit %d)\n%s\n", id.c_str(), path.c_str(), f.detail.c_str(), (unsigned long long)f.seed, rc, o.substr(0, 3000).c_str()); violations++; exit_code = 1; replay_paths.push_back(path); }
            else {
                // the crash may need a derived variant (fault enumeration): try them in fresh processes
                bool got = false;
                if (pf->variants) { RunResult br = pf->check(p); auto vs = pf->variants(p, br, thorough); for (size_t k = 0; k < vs.size() && !got; k++) { std::string vp = write_replay(id, vs[k], dummy, "crash", verif_dir() + "/out/replay", std::to_string(f.seed) + "-crash-v" + std::to_string(k)); int r2 = replay_fresh(vp, &o); if (r2 >= 128 || r2 == 77 || r2 == 134) { printf("VIOLATION property=%s replay=%s\n  crash: %s (seed %llu variant %zu)\n%s\n", id.c_str(), vp.c_str(), f.detail.c_str(), (unsigned long long)f.seed, k, o.substr(0, 3000).c_str()); violations++; exit_code = 1; got = true; replay_paths.push_back(vp); } else unlink(vp.c_str()); } }
                if (!got) { printf("INFRASTRUCTURE: worker crash at seed %llu did not reproduce in a fresh process (%s)\n", (unsigned long long)f.seed, f.detail.c_str()); if (!exit_code) exit_code = 2; }
            }
            continue;
        }
        // re-running, shrinking and replaying happen in a child process: a defective library may corrupt memory while we do it
        int pfd2[2]; if (pipe(pfd2)) { perror("pipe"); exit(2); }
        fflush(stdout);
        pid_t cpid = fork();
        if (cpid == 0) {
            close(pfd2[0]); int code = 0; std::string outpath;
            do {
        if (f.variant >= 0 && pf->variants) { RunResult br = pf->check(p); auto vs = pf->variants(p, br, thorough); if (f.variant < (int)vs.size()) p = vs[f.variant]; }
        RunResult r1, r2; Program a = p, b = p; std::string s1 = run_sig(*pf, a, &r1), s2 = run_sig(*pf, b, &r2);
        if (s1 != f.sig || s2 != f.sig || r1.st.ev_hash != r2.st.ev_hash) { printf("INFRASTRUCTURE: violation at seed %llu is not deterministic (sig %s / %s / %s)\n", (unsigned long long)f.seed, f.sig.c_str(), s1.c_str(), s2.c_str()); code = 2; break; }
        int reruns = 0; Program small = shrink(*pf, p, f.sig, thorough ? 600 : 300, reruns);
        RunResult rs; Program sm = small; run_sig(*pf, sm, &rs);
        unsigned sh = 0; for (char ch : f.sig) sh = sh * 131 + (unsigned char)ch;
        std::string path = write_replay(id, small, rs, f.sig, verif_dir() + "/out/replay", std::to_string(f.seed) + "-" + std::to_string(sh % 100000));
        std::string o; int rc = replay_fresh(path, &o);
        if (rc != 1) { printf("INFRASTRUCTURE: minimised replay %s does not reproduce in a fresh process (exit %d)\n%s\n", path.c_str(), rc, o.c_str()); code = 2; break; }
        printf("VIOLATION property=%s replay=%s\n  seed=%llu class=%s shrunk %zu->%zu ops in %d re-runs, %d ranks, %zu faults, %zu schedule deviations\n  %s\n  program: %s\n", id.c_str(), path.c_str(),
               (unsigned long long)f.seed, f.sig.c_str(), p.ops.size(), small.ops.size(), reruns, small.cfg.sim.nprocs, small.faults.size(), small.cfg.sim.deviations.size(),
               rs.violations.empty() ? f.detail.c_str() : rs.violations[0].detail.c_str(), program_to_text(small, 40).c_str());
        code = 1; outpath = path;
            } while (0);
            fflush(stdout);
            std::string msg = std::to_string(code) + " " + outpath + "\n"; if (write(pfd2[1], msg.c_str(), msg.size()) < 0) {}
            _exit(0);
        }
        close(pfd2[1]); std::string cres; { char cb[4096]; ssize_t cn; while ((cn = read(pfd2[0], cb, sizeof cb)) > 0) cres.append(cb, cn); } close(pfd2[0]);
        int cst = 0; waitpid(cpid, &cst, 0);
        if (cres.empty()) {
            // the child died while re-running the violating program: that is a crash of this seed
            RunResult dummy; sim::ViolationInfo v; v.kind = "crash"; v.detail = "process died while re-running a program that had reported: " + f.detail; dummy.violations.push_back(v);
            std::string path = write_replay(id, p, dummy, "crash", verif_dir() + "/out/replay", std::to_string(f.seed) + "-crash");
            std::string o; int rc = replay_fresh(path, &o);
            if (rc >= 128 || rc == 77 || rc == 134) { printf("VIOLATION property=%s replay=%s\n  crash while re-running seed %llu (first report: %s %s); the replay crashes in a fresh process, exit %d\n", id.c_str(), path.c_str(), (unsigned long long)f.seed, f.sig.c_str(), f.detail.substr(0, 300).c_str(), rc); violations++; if (exit_code != 2) exit_code = 1; replay_paths.push_back(path); }
            else { printf("INFRASTRUCTURE: re-running seed %llu crashed but the replay does not crash in a fresh process (exit %d)\n", (unsigned long long)f.seed, rc); exit_code = 2; }
            continue;
        }
        { int code = atoi(cres.c_str()); size_t sp = cres.find(' '); std::string pth = sp == std::string::npos ? "" : cres.substr(sp + 1); while (!pth.empty() && (pth.back() == '\n' || pth.back() == ' ')) pth.pop_back();
          if (code == 2) exit_code = 2; else if (code == 1) { violations++; if (exit_code != 2) exit_code = 1; replay_paths.push_back(pth); } }
    }
    if (violations > 0) exit_code = 1;   // a confirmed, replayable violation decides the verdict even if another candidate could not be confirmed
    if (tot.evals == 0 && exit_code == 0) { printf("INFRASTRUCTURE: no runs completed\n"); exit_code = 2; }
    // 4. evidence
    double wall = now_s() - t0;
    Json ev = Json::obj(); ev.set("property_id", id).set("tier", thorough ? "thorough" : "quick").set("seed", (long long)base).set("level", pf->level);
    Json cov = Json::obj();
    cov.set("evaluations", tot.evals).set("distinct_nontrivial", (long long)distinct.size()).set("rule", pf->rule);
    Json sm = Json::arr(); for (auto &s : samples) sm.push(s); if (sm.a.empty()) sm.push("(no sample recorded)"); cov.set("samples", sm);
    bool exhaustive_now = pf->exhaustive || (pf->space_seeds > 0 && base == 1 && crashes == 0 && min_worker_evals * W >= pf->space_seeds);
    cov.set("exhaustive", exhaustive_now).set("finite_space_seeds", (long long)pf->space_seeds).set("nontrivial_runs", tot.nontrivial).set("runs_per_hour", (long long)(tot.evals / std::max(wall, 0.001) * 3600))
        .set("seeds_from", (long long)base).set("scheduler_steps", tot.steps).set("simulated_events", tot.events).set("simulated_time_us", tot.events + tot.steps)
        .set("rank_switches", tot.switches).set("mpi_collectives", tot.coll).set("mpiio_calls", tot.fileio).set("bytes_transferred", tot.bytes)
        .set("distinct_measure", "hash of (op-kind/form/memtype shape of the program, fault plan, sequence of (rank, blocking call) at every scheduling decision)")
        .set("worker_crashes", crashes).set("known_finding_hits_suppressed", tot.known_suppressed).set("variant", variant);
    Json fj = Json::obj(); for (auto &kv : faults) fj.set(kv.first, kv.second); cov.set("faults_fired", fj);
    Json pj = Json::obj(); for (auto &kv : probes) pj.set(kv.first, kv.second); cov.set("probes", pj);
    if (!sites.empty()) { Json sj = Json::obj(); for (auto &kv : sites) sj.set(kv.first, kv.second); cov.set("fault_sites_by_class", sj); }
    cov.set("components", pf->real_stub);
    Json rp = Json::arr(); for (auto &s : replay_paths) rp.push(s); cov.set("replay_files", rp);
    ev.set("coverage", cov);
    Json as = Json::arr(); for (auto &s : pf->assumptions) as.push(s);
    as.push("simmpi/SimFS implement the MPI-3.1 contract as read by the authors of /verif; POSIX-strong visibility (storage model A)");
    ev.set("assumptions", as).set("wall_s", wall).set("violations", violations);
    mkdir((verif_dir() + "/evidence").c_str(), 0755);
    if (!no_evidence) spit(verif_dir() + "/evidence/" + id + ".json", ev.dump(1));
    printf("%s: %ld runs (%zu distinct non-trivial) in %.1fs, %ld violation(s), %ld known-finding hit(s) suppressed, exit %d\n", id.c_str(), tot.evals, distinct.size(), wall, violations, tot.known_suppressed, exit_code);
    return exit_code;
}
