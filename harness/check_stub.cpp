int check_main(int, char **) { return 2; }
