// Property profiles: generator weights, oracle sets, non-triviality rules.
#include "profile.hpp"
#include <map>

static std::map<std::string, Profile> &registry() { static std::map<std::string, Profile> r; return r; }
const Profile *find_profile(const std::string &id) { auto it = registry().find(id); return it == registry().end() ? nullptr : &it->second; }
std::vector<std::string> all_profile_ids() { std::vector<std::string> v; for (auto &kv : registry()) v.push_back(kv.first); return v; }

static bool wrote_multi(const Program &p, const RunResult &r) { return r.st.bytes_written > 0 && r.completed; }

static void reg(const Profile &p) { registry()[p.id] = p; }

struct Init {
    Init() {
        {   // C01 blocking put/get round trip
            Profile p; p.id = "C01"; p.level = "exploration"; p.technique = "deterministic simulation: seeded schedules over a simulated MPI job, model-based round-trip oracle + independent decoder";
            p.rule = "one seed = one generated program (schema, blocking writes split among 1..6 simulated ranks through random API forms, reads through other forms, reopen) under one seeded schedule; non-trivial = run completed, wrote data and read at least one element back; distinct by program shape x interleaving hash";
            p.gen = [](uint64_t seed, bool th) { GenParams g; g.max_np = th ? 8 : 6; g.max_data_ops = th ? 24 : 14; g.big = true; g.hints = th; return gen_program(seed, g, "C01"); };
            p.check = [](Program &q) { RunOpts o; return run_program(q, o); };
            p.nontrivial = [](const Program &q, const RunResult &r) { return r.completed && r.st.bytes_written > 0 && r.st.bytes_read > 0; };
            p.quick_s = 40; p.thorough_s = 600;
            reg(p);
        }
        auto simple = [&](const char *id, const char *rule, std::function<GenParams(bool)> gpf, std::function<bool(const Program &, const RunResult &)> nt) {
            Profile p; p.id = id; p.level = "exploration"; p.rule = rule;
            p.technique = "deterministic simulation: seeded search over programs x schedules on a simulated MPI job, reference-model + independent-decoder oracles";
            std::string sid = id;
            p.gen = [gpf, sid](uint64_t seed, bool th) { return gen_program(seed, gpf(th), sid); };
            p.check = [sid](Program &q) {
                RunOpts o; o.check_usage = (sid == "C13"); RunResult r = run_program(q, o);
                if (sid == "C08" && !r.violations.empty()) {
                    // known finding: a rank with invalid arguments in a collective put to a record variable skips the record-count Allreduce;
                    // everything observed at or after such an op in that run is attributed to it (tag), anything earlier is reported as usual
                    bool safe = false; { auto e = q.cfg.sim.env.find("PNETCDF_SAFE_MODE"); safe = e != q.cfg.sim.env.end() && e->second != "0"; }
                    int hazard = -1;
                    for (size_t i = 0; i < q.ops.size() && hazard < 0 && !safe; i++) { const Op &op = q.ops[i]; if (op.skip || op.kind != OP_PUT || !op.coll || !op.snap) continue; }
                    for (size_t i = 0; i < q.ops.size() && hazard < 0 && !safe; i++) {
                        const Op &op = q.ops[i]; if (op.skip || op.kind != OP_PUT || !op.coll) continue;
                        bool bad = false, reached = false; for (auto &a : op.acc) if (a.active && a.exp_rc != NC_NOERR) bad = true;
                        for (auto &rr : r.rcs) if (i < rr.size() && rr[i].executed) reached = true;
                        if (bad && reached && (op.a[5] == 1)) hazard = (int)i;
                    }
                    if (hazard >= 0 && (r.violations[0].op < 0 || r.violations[0].op >= hazard)) r.violations[0].detail += " [zero-req-hazard: op#" + std::to_string(hazard) + " is a collective put to a record variable in which a rank has invalid arguments]";
                }
                return r;
            };
            p.nontrivial = nt; reg(p);
        };
        auto has_kind = [](const Program &q, int kind) { for (auto &op : q.ops) if (!op.skip && op.kind == kind) return true; return false; };
        simple("C02", "one seed = one program posting iput/iget/bput requests (all forms incl. varn, flexible buffers) on 1..6 ranks with different request counts per rank, completed by wait/wait_all in random partitions (explicit id lists in random order, NC_REQ_ALL/GET/PUT, NULL and unknown ids, cancel), knobs NC_REQUEST_CHUNK/abuf table size randomised; non-trivial = at least one request completed by a wait and data transferred; distinct by program shape x interleaving",
               [](bool th) { GenParams g; g.nonblocking = true; g.iget_overlap_strict = true; g.max_np = th ? 8 : 6; g.max_data_ops = th ? 30 : 18; g.knobs = true; g.hints = true; g.big = th; return g; },
               [has_kind](const Program &q, const RunResult &r) { return r.completed && has_kind(q, OP_WAIT) && r.st.bytes_written > 0; });
        simple("C03", "one seed = one schema-heavy program (UTF-8 names, attributes of every type incl. zero length, fixed and record variables, _enddef alignment arguments, alignment hints, redefinitions, data-mode metadata updates) with a raw-image checkpoint after every op: strict header decode by the independent codec, layout rules, library reports vs file; non-trivial = at least 2 checkpoints decoded a file with >= 1 variable",
               [](bool th) { GenParams g; g.checkpoint_each = true; g.utf8_names = true; g.align_args = true; g.hints = true; g.redef = true; g.meta_heavy = true; g.max_np = 4; g.max_data_ops = th ? 14 : 8; g.multi_file = th; return g; },
               [](const Program &q, const RunResult &r) { int n = 0; for (auto &op : q.ops) if (!op.skip && op.kind == OP_CHECKPOINT) n++; return r.completed && n >= 2 && r.st.bytes_written > 0; });
        simple("C05", "one seed = one history of collective / independent / nonblocking writes to record variables by subsets of 2..8 ranks (strided record indices, zero-length, rewrites), mode switches, sync/sync_numrecs, partial waits, redef, reopen; every rank's reported record count is checked after every op and the header field at every checkpoint; non-trivial = record count grew at least twice on >= 2 ranks",
               [](bool th) { GenParams g; g.min_np = 2; g.max_np = th ? 8 : 6; g.nonblocking = true; g.redef = true; g.fill = true; g.max_data_ops = th ? 30 : 18; g.checkpoint_each = false; g.atts = false; g.max_dimlen = 3; return g; },
               [](const Program &q, const RunResult &r) { int n = 0; for (auto &op : q.ops) if (!op.skip && (op.kind == OP_PUT || op.kind == OP_WAIT || op.kind == OP_FILL_VAR_REC)) n++; return r.completed && n >= 2 && q.cfg.sim.nprocs >= 2; });
        simple("C06", "one seed = build a file with data, then 1..3 redefinition deltas (attributes growing the header, new fixed / record variables, new alignment) with knob MOVE_UNIT in {1 B..4 KiB} so data moves take many rounds across 1..8 ranks; some redefinitions are aborted (byte-for-byte comparison with the image at ncmpi_redef), some creates are aborted (file must vanish); non-trivial = a redefinition with existing data completed or was aborted",
               [](bool th) { GenParams g; g.redef = true; g.knobs = true; g.align_args = true; g.hints = true; g.max_np = th ? 8 : 6; g.max_data_ops = th ? 24 : 14; g.fill = true; return g; },
               [has_kind](const Program &q, const RunResult &r) { return r.completed && has_kind(q, OP_REDEF) && r.st.bytes_written > 0; });
        simple("C07", "one seed = one history of def/put/overwrite/rename/delete on dimensions, variables, global and per-variable attributes in define and data mode, UTF-8 names, name-table sizes 1..3 via hints and growth knobs 1..3, interleaved with enddef/redef/close/open; all inquiries (by id and by name) are compared with the sequential model after the op and the header on disk at checkpoints; non-trivial = at least 3 metadata-changing ops and one inquiry sweep",
               [](bool th) { GenParams g; g.meta_heavy = true; g.utf8_names = true; g.hints = true; g.knobs = true; g.redef = true; g.max_np = 3; g.max_data_ops = th ? 20 : 12; g.checkpoint_each = true; g.all_forms = false; return g; },
               [has_kind](const Program &q, const RunResult &r) { int n = 0; for (auto &op : q.ops) if (!op.skip && (op.kind == OP_PUT_ATT || op.kind == OP_RENAME_ATT || op.kind == OP_RENAME_VAR || op.kind == OP_RENAME_DIM || op.kind == OP_DEL_ATT)) n++; return r.completed && n >= 3 && has_kind(q, OP_INQ); });
        simple("C13", "one seed = one program of bput/iput/iget/wait/cancel/attach/detach and blocking calls with buffers on both sides of the 4096-byte in-place-swap threshold, all swap hint settings, buffer datatypes with gaps; caller buffers sit between canaries, write buffers are compared byte-for-byte after the completing call, bput buffers are overwritten right after posting, ncmpi_inq_buffer_usage / NC_EINSUFFBUF are compared with the model after every op; non-trivial = a buffered put was posted and completed",
               [](bool th) { GenParams g; g.nonblocking = true; g.big = true; g.hints = true; g.knobs = true; g.max_np = 3; g.max_data_ops = th ? 30 : 18; return g; },
               [has_kind](const Program &q, const RunResult &r) { return r.completed && (has_kind(q, OP_BPUT) || has_kind(q, OP_IPUT)) && has_kind(q, OP_WAIT); });
        simple("C16", "one seed = one schema with any subset of variables in fill mode (set_fill before/after definitions, def_var_fill with/without value), 1..8 ranks, partial writes, redefinitions adding fixed and record variables to files that already hold records, fill_var_rec; never-written elements are read through the API and decoded from the raw image; non-trivial = at least one fill-mode variable existed and was read or checkpointed",
               [](bool th) { GenParams g; g.fill = true; g.redef = true; g.max_np = th ? 8 : 6; g.max_data_ops = th ? 24 : 14; g.checkpoint_each = false; g.knobs = true; return g; },
               [](const Program &q, const RunResult &r) { bool f = false; for (auto &op : q.ops) if (!op.skip && (op.kind == OP_SET_FILL || op.kind == OP_DEF_VAR_FILL)) f = true; return r.completed && f; });
        simple("C08", "one seed = one program whose collective put/get calls (var1/var/vara/vars/varm, varn, vard families; fixed and record variables) give each of 2..8 ranks valid, zero-length or invalid arguments (bad varid, start, edge, negative count, stride, char/number mismatch), with safe mode on in a quarter of the seeds (errors then shared), intra-node aggregation and hints varied, eager/synchronising collectives and starvation in the schedule; the simulated MPI matches every collective by sequence number and reports the first mismatch or deadlock exactly; oracle: no mismatch, no hang, each rank's return code as documented (own error locally / shared in safe mode), valid ranks' data stored; non-trivial = at least one rank had an invalid or zero-length request in a collective call on >= 2 ranks",
               [](bool th) { GenParams g; g.invalid_args = true; g.min_np = 2; g.max_np = th ? 8 : 6; g.max_data_ops = th ? 20 : 12; g.hints = true; g.nonblocking = true; g.fill = true; g.max_dimlen = 4; return g; },
               [](const Program &q, const RunResult &r) { if (q.cfg.sim.nprocs < 2 || !r.completed) return false; for (auto &op : q.ops) if (!op.skip && (op.kind == OP_PUT || op.kind == OP_GET) && op.coll) for (auto &a : op.acc) if (!a.active || a.invalid || a.exp_rc != NC_NOERR) return true; return false; });
        {   // C17 lifecycle of handles and resources
            Profile p; p.id = "C17"; p.level = "exploration";
            p.technique = "deterministic simulation with fault injection: seeded histories over several files + resource accounting at the allocation / MPI-object seams";
            p.rule = "one seed = one history of create/open/close/abort over 1..3 files that are open at the same time, every API family in between, calls on stale / negative / huge / unused ids while other files are open, close with pending nonblocking requests; odd seeds additionally inject 1..2 faults (MPI-IO data errors, open/close/sync/set_view/delete errors) at random positions with relaxed return-code oracles; oracle: NC_EBADID / NC_EPENDING as documented, no crash, files independent (per-file model), and when the last file is closed zero live library heap blocks, MPI datatypes, communicators, info objects, file handles, requests and file descriptors on every rank; non-trivial = >= 2 files or a bad-id call or a fired fault";
            p.fault_kinds = {"io-error", "open-error", "close-error", "sync-error", "setview-error", "delete-error"};
            p.gen = [](uint64_t seed, bool th) {
                GenParams g; g.multi_file = true; g.badids = true; g.close_pending = true; g.nonblocking = true; g.redef = true; g.fill = true; g.max_np = 3; g.max_data_ops = th ? 14 : 8; g.max_dimlen = 4; g.knobs = true;
                Program q = gen_program(seed, g, "C17");
                if (seed % 2) {
                    sim::Rng rng(seed * 7919 + 13); int nf = 1 + (int)rng.below(2);
                    static const int kinds[] = {sim::F_IO_DATA, sim::F_IO_DATA, sim::F_IO_DATA, sim::F_OPEN, sim::F_CLOSE, sim::F_SYNC, sim::F_SETVIEW, sim::F_DELETE};
                    static const int classes[] = {MPI_ERR_IO, MPI_ERR_NO_SPACE, MPI_ERR_QUOTA, MPI_ERR_ACCESS, MPI_ERR_READ_ONLY, MPI_ERR_FILE, MPI_ERR_OTHER, MPI_ERR_NO_SUCH_FILE, MPI_ERR_BAD_FILE};
                    for (int i = 0; i < nf && !q.ops.empty(); i++) { sim::Fault f; f.kind = kinds[rng.below(8)]; f.rank = (int)rng.below(q.cfg.sim.nprocs); f.op = (int)rng.below(q.ops.size()); f.nth = (int)rng.below(3); f.errclass = classes[rng.below(9)]; q.faults.push_back(f); }
                }
                return q;
            };
            p.check = [](Program &q) {
                RunOpts o;
                if (!q.faults.empty()) { o.check_rc = false; o.check_data = false; o.check_files = false; }
                RunResult r = run_program(q, o);
                if (!q.faults.empty() && !r.violations.empty()) {
                    // after an injected error the ranks may legitimately diverge (e.g. one rank's create failed): only memory/resource/usage verdicts are kept
                    bool fired = false; for (auto &f : r.faults) fired = fired || f.fired;
                    const std::string &k = r.violations[0].kind;
                    if (fired && (k == "hang" || k == "collective-mismatch" || k == "livelock")) r.violations.clear();
                }
                return r;
            };
            p.nontrivial = [](const Program &q, const RunResult &r) { int nf = 0; bool bad = false; for (auto &op : q.ops) if (!op.skip) { if (op.kind == OP_CREATE) nf++; if (op.kind == OP_BADID) bad = true; } bool fired = false; for (auto &f : r.faults) fired = fired || f.fired; return nf >= 2 || bad || fired; };
            p.assumptions = {"in fault-injecting runs hangs and collective mismatches after the first fired fault are not judged (ranks may legitimately diverge after an error only some of them saw)"};
            reg(p);
        }
        {   // C11 fault enumeration: every data-transfer MPI-IO call x error class, one fault per run
            Profile p; p.id = "C11"; p.level = "fault_enumeration";
            p.technique = "deterministic simulation with fault injection: single-fault enumeration over every data-transfer MPI-IO call of sampled programs";
            p.rule = "each seed generates one program (header write, numrecs update, data movement at redefinition, fill, blocking / nonblocking data I/O, independent mode, reopen); it is run fault-free recording every MPI-IO data-transfer call that moves >= 1 byte (rank, op, ordinal, library call site); then one run per (call, error class in {IO, NO_SPACE, QUOTA, ACCESS, READ_ONLY, FILE, OTHER}) injects exactly that fault; oracle: the API call executing on the faulted rank (or the wait completing the request / a status) returns an error, every rank returns from the call, no collective mismatch; non-trivial = the fault fired; distinct by (program shape, fault position, class, interleaving)";
            p.fault_kinds = {"io-error"};
            p.gen = [](uint64_t seed, bool th) { GenParams g; g.max_np = 4; g.redef = true; g.fill = true; g.nonblocking = true; g.max_data_ops = th ? 14 : 8; g.knobs = true; g.hints = (seed % 3 == 0); g.max_dimlen = 4; g.reopen = true; g.syncpoint_after_write = false; return gen_program(seed, g, "C11"); };
            p.check = [](Program &q) {
                RunOpts o;
                if (q.faults.empty()) { o.record_iocalls = true; return run_program(q, o); }
                o.check_rc = false; o.check_data = false; o.check_files = false; o.check_leaks = false; o.stop_after_op = q.faults[0].op;
                RunResult r = run_program(q, o);
                if (!r.violations.empty()) return r;
                for (auto &f : r.faults) {
                    if (!f.fired || f.kind != sim::F_IO_DATA) continue;
                    if (f.op < 0 || f.op >= (int)q.ops.size()) continue;
                    const OpResult &orr = r.rcs[f.rank][f.op];
                    bool reported = orr.executed && orr.rc != NC_NOERR;
                    for (int st : orr.statuses) if (st != NC_NOERR && st != 12345) reported = true;
                    if (!reported) {
                        sim::ViolationInfo v; v.kind = "oracle:io-error-dropped"; v.rank = f.rank; v.op = f.op;
                        v.detail = std::string(f.mpi_call) + " failed with " + sim::errclass_name(f.errclass) + " (" + std::to_string(f.bytes) + " bytes) @" + f.site + " but " + op_to_string(q.ops[f.op], f.rank) + " returned NC_NOERR on rank " + std::to_string(f.rank);
                        r.violations.push_back(v); break;
                    }
                }
                return r;
            };
            p.variants = [](const Program &base, const RunResult &br, bool th) {
                std::vector<Program> out;
                static const int classes[] = {MPI_ERR_IO, MPI_ERR_NO_SPACE, MPI_ERR_QUOTA, MPI_ERR_ACCESS, MPI_ERR_READ_ONLY, MPI_ERR_FILE, MPI_ERR_OTHER};
                if (!br.violations.empty()) return out;
                for (auto &c : br.iocalls) {
                    if (c.op < 0 || c.op >= (int)base.ops.size()) continue;   // epilogue closes are not part of the program
                    for (int cls : classes) { Program v = base; sim::Fault f; f.kind = sim::F_IO_DATA; f.rank = c.rank; f.op = c.op; f.nth = c.nth; f.errclass = cls; v.faults.push_back(f); out.push_back(v); }
                }
                return out;
            };
            p.nontrivial = [](const Program &q, const RunResult &r) { for (auto &f : r.faults) if (f.fired) return true; return false; };
            p.assumptions = {"zero-byte participation calls are not faulted (their return value may legitimately be ignored)", "after the faulted call every rank stops: behaviour of later calls after an I/O error is not judged"};
            p.quick_s = 60; p.thorough_s = 900;
            reg(p);
        }
    }
} init_profiles;
