// Property profiles: generator weights, oracle sets, non-triviality rules.
#include "profile.hpp"
#include <map>

static std::map<std::string, Profile> &registry() { static std::map<std::string, Profile> r; return r; }
const Profile *find_profile(const std::string &id) { auto it = registry().find(id); return it == registry().end() ? nullptr : &it->second; }
std::vector<std::string> all_profile_ids() { std::vector<std::string> v; for (auto &kv : registry()) v.push_back(kv.first); return v; }

static bool wrote_multi(const Program &p, const RunResult &r) { return r.st.bytes_written > 0 && r.completed; }

static void reg(const Profile &p) { registry()[p.id] = p; }

struct Init {
    Init() {
        {   // C01 blocking put/get round trip
            Profile p; p.id = "C01"; p.level = "exploration"; p.technique = "deterministic simulation: seeded schedules over a simulated MPI job, model-based round-trip oracle + independent decoder";
            p.rule = "one seed = one generated program (schema, blocking writes split among 1..6 simulated ranks through random API forms, reads through other forms, reopen) under one seeded schedule; non-trivial = run completed, wrote data and read at least one element back; distinct by program shape x interleaving hash";
            p.gen = [](uint64_t seed, bool th) { GenParams g; g.max_np = th ? 8 : 6; g.max_data_ops = th ? 24 : 14; g.big = true; g.hints = th; return gen_program(seed, g, "C01"); };
            p.check = [](Program &q) { RunOpts o; return run_program(q, o); };
            p.nontrivial = [](const Program &q, const RunResult &r) { return r.completed && r.st.bytes_written > 0 && r.st.bytes_read > 0; };
            p.quick_s = 40; p.thorough_s = 600;
            reg(p);
        }
    }
} init_profiles;
