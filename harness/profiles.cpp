// Property profiles: generator weights, oracle sets, non-triviality rules.
#include "profile.hpp"
#include "cdf.hpp"
#include "bigcase.hpp"
#include <map>

static std::map<std::string, Profile> &registry() { static std::map<std::string, Profile> r; return r; }
const Profile *find_profile(const std::string &id) { auto it = registry().find(id); return it == registry().end() ? nullptr : &it->second; }
std::vector<std::string> all_profile_ids() { std::vector<std::string> v; for (auto &kv : registry()) v.push_back(kv.first); return v; }

static bool wrote_multi(const Program &p, const RunResult &r) { return r.st.bytes_written > 0 && r.completed; }

static void reg(const Profile &p) { registry()[p.id] = p; }

// logical comparison of the final files of two runs of (variants of) one program: dimensions, attributes, variables, record count and every
// element the reference model knows to be determinate (independent decoder on both images).  Returns "" when equal.
static std::string final_files_differ(const Program &q, const RunResult &ra, const RunResult &rb, bool ignore_logs = false) {
    // the reference model at the END of the program (annotation is deterministic and idempotent): which files are closed, and what they must hold
    Model endm; { Program tmp = q; annotate(endm, tmp); } const Model *fm = &endm;
    auto is_log = [](const std::string &n) { return n.size() > 5 && (n.compare(n.size() - 5, 5, ".meta") == 0 || n.compare(n.size() - 5, 5, ".data") == 0); };
    for (auto &kv : ra.final_files) {
        if (ignore_logs && is_log(kv.first)) continue;
        auto jt = rb.final_files.find(kv.first);
        if (jt == rb.final_files.end() || jt->second.exists != kv.second.exists) return "file " + kv.first + " exists under one configuration only";
        if (!kv.second.exists) continue;
        { bool still_open = false; if (fm) for (auto &mf2 : fm->files) if (mf2.open && mf2.path == kv.first) still_open = true; if (still_open) continue; }   // the property speaks of the resulting file: a file the program never closed has no agreed final state (the model's closed-file record is older than the writes made since)
        cdf::File da, db; if (!cdf::decode_header(kv.second, da) || !cdf::decode_header(jt->second, db)) continue;   // reported by the model oracle of the run
        std::string why;
        auto same_atts = [&](const std::vector<cdf::Att> &x, const std::vector<cdf::Att> &y, const std::string &ctx) { if (x.size() != y.size()) { why = ctx + ": attribute count"; return; } for (size_t i = 0; i < x.size(); i++) if (x[i].name != y[i].name || x[i].type != y[i].type || x[i].nelems != y[i].nelems || x[i].raw != y[i].raw) { why = ctx + ": attribute '" + x[i].name + "'"; return; } };
        if (da.version != db.version) why = "format version"; else if (da.numrecs != db.numrecs) why = "record count " + std::to_string(da.numrecs) + " vs " + std::to_string(db.numrecs);
        else if (da.dims.size() != db.dims.size() || da.vars.size() != db.vars.size()) why = "number of dimensions / variables";
        for (size_t i = 0; i < da.dims.size() && why.empty(); i++) if (da.dims[i].name != db.dims[i].name || da.dims[i].len != db.dims[i].len) why = "dimension " + std::to_string(i);
        if (why.empty()) same_atts(da.gatts, db.gatts, "global");
        const MFile *mf = nullptr; if (fm) { auto d = fm->disk.find(kv.first); if (d != fm->disk.end()) mf = &d->second; }
        for (size_t i = 0; i < da.vars.size() && why.empty(); i++) {
            const cdf::Var &x = da.vars[i], &y = db.vars[i];
            if (x.name != y.name || x.type != y.type || x.dimids != y.dimids) { why = "variable " + std::to_string(i) + " definition"; break; }
            same_atts(x.atts, y.atts, "variable '" + x.name + "'"); if (!why.empty()) break;
            if (!mf || i >= mf->vars.size()) continue;
            const MVar &mv = mf->vars[i];
            for (size_t e = 0; e < mv.cells.size(); e++) {
                if (mv.cells[e].st != CS_VALUE && mv.cells[e].st != CS_FILL) continue;
                long long ia, ib; double fa, fb; bool isf; bool oka = cdf::read_elem(kv.second, da, x, (long long)e, ia, fa, isf), okb = cdf::read_elem(jt->second, db, y, (long long)e, ib, fb, isf);
                if (oka != okb || ia != ib || !(fa == fb || (fa != fa && fb != fb))) { why = "variable '" + x.name + "' element " + std::to_string(e) + ": " + std::to_string(fa) + " vs " + std::to_string(fb); break; }
            }
        }
        if (!why.empty()) return "final file " + kv.first + " differs logically between the two runs: " + why;
    }
    return "";
}

struct Init {
    Init() {
        {   // C01 blocking put/get round trip
            Profile p; p.id = "C01"; p.level = "exploration"; p.technique = "deterministic simulation: seeded schedules over a simulated MPI job, model-based round-trip oracle + independent decoder";
            p.rule = "one seed = one generated program (schema, blocking writes split among 1..6 simulated ranks through random API forms, reads through other forms, reopen; a third of the seeds with random hints incl. intra-node aggregation) under one seeded schedule; non-trivial = run completed, wrote data and read at least one element back; distinct by program shape x interleaving hash";
            p.gen = [](uint64_t seed, bool th) { GenParams g; g.max_np = th ? 8 : 6; g.max_data_ops = th ? 24 : 14; g.big = true; g.hints = th || (seed % 3 == 0); g.erange = true; return gen_program(seed, g, "C01"); };   // hints: intra-node aggregation, alignment, swap and chunk settings on a third of the quick seeds
            p.check = [](Program &q) { RunOpts o; return run_program(q, o); };
            p.nontrivial = [](const Program &q, const RunResult &r) { return r.completed && r.st.bytes_written > 0 && r.st.bytes_read > 0; };
            p.quick_s = 40; p.thorough_s = 600;
            reg(p);
        }
        auto simple = [&](const char *id, const char *rule, std::function<GenParams(bool)> gpf, std::function<bool(const Program &, const RunResult &)> nt) {
            Profile p; p.id = id; p.level = "exploration"; p.rule = rule;
            p.technique = "deterministic simulation: seeded search over programs x schedules on a simulated MPI job, reference-model + independent-decoder oracles";
            std::string sid = id;
            p.gen = [gpf, sid](uint64_t seed, bool th) { GenParams g = gpf(th); if (sid == "C07") g.multi_file = (seed % 3 == 0);   // several files open at once: copy_att between files in different modes
                return gen_program(seed, g, sid); };
            p.check = [sid](Program &q) {
                RunOpts o; o.check_usage = (sid == "C13"); o.check_hints = (sid == "C03" || sid == "C06");   // C03: requested alignments honoured on creation (hint / __enddef precedence) and reported as in force
                RunResult r = run_program(q, o);
                if (sid == "C08" && !r.violations.empty()) {
                    // known finding: a rank with invalid arguments in a collective put to a record variable skips the record-count Allreduce;
                    // everything observed at or after such an op in that run is attributed to it (tag), anything earlier is reported as usual
                    bool safe = false; { auto e = q.cfg.sim.env.find("PNETCDF_SAFE_MODE"); safe = e != q.cfg.sim.env.end() && e->second != "0"; }
                    int hazard = -1;
                    for (size_t i = 0; i < q.ops.size() && hazard < 0 && !safe; i++) { const Op &op = q.ops[i]; if (op.skip || op.kind != OP_PUT || !op.coll || !op.snap) continue; }
                    for (size_t i = 0; i < q.ops.size() && hazard < 0 && !safe; i++) {
                        const Op &op = q.ops[i]; if (op.skip || op.kind != OP_PUT || !op.coll) continue;
                        bool bad = false, reached = false; for (auto &a : op.acc) if (a.active && a.exp_rc != NC_NOERR) bad = true;
                        for (auto &rr : r.rcs) if (i < rr.size() && rr[i].executed) reached = true;
                        if (bad && reached && (op.a[5] == 1)) hazard = (int)i;
                    }
                    if (hazard >= 0 && (r.violations[0].op < 0 || r.violations[0].op >= hazard)) r.violations[0].detail += " [zero-req-hazard: op#" + std::to_string(hazard) + " is a collective put to a record variable in which a rank has invalid arguments]";
                }
                if (sid == "C08" && r.violations.empty() && r.completed) {
                    // safe mode: ranks that disagree on the arguments of a collective metadata call must all get the same error code (and the call must have had no effect: the model continued unchanged)
                    for (size_t i = 0; i < q.ops.size() && r.violations.empty(); i++) {
                        if (q.ops[i].skip || q.ops[i].note != "multidefine") continue;
                        int first = 1; bool same = true, all = true; for (auto &rr : r.rcs) { if (i >= rr.size() || !rr[i].executed) { all = false; continue; } if (first == 1) first = rr[i].rc; else if (rr[i].rc != first) same = false; }
                        if (!all) continue;
                        std::string codes; for (auto &rr : r.rcs) codes += std::string(" ") + ncmpi_strerrno(rr[i].rc);
                        if (!same || first == NC_NOERR || first > 0) { sim::ViolationInfo v; v.kind = "oracle:multidefine"; v.op = (int)i; v.detail = op_to_string(q.ops[i]) + ": in safe mode every rank must get the same error for disagreeing arguments, got" + codes; r.violations.push_back(v); }
                    }
                }
                return r;
            };
            p.nontrivial = nt; reg(p);
        };
        auto has_kind = [](const Program &q, int kind) { for (auto &op : q.ops) if (!op.skip && op.kind == kind) return true; return false; };
        simple("C02", "one seed = one program posting iput/iget/bput requests (all forms incl. varn, flexible buffers) on 1..6 ranks with different request counts per rank, completed by wait/wait_all in random partitions (explicit id lists in random order, NC_REQ_ALL/GET/PUT, NULL and unknown ids, cancel), knobs NC_REQUEST_CHUNK/abuf table size randomised; non-trivial = at least one request completed by a wait and data transferred; distinct by program shape x interleaving",
               [](bool th) { GenParams g; g.nonblocking = true; g.iget_overlap_strict = true; g.max_np = th ? 8 : 6; g.max_data_ops = th ? 30 : 18; g.knobs = true; g.hints = true; g.big = th; g.erange = true; return g; },
               [has_kind](const Program &q, const RunResult &r) { return r.completed && has_kind(q, OP_WAIT) && r.st.bytes_written > 0; });
        simple("C03", "one seed = one schema-heavy program (UTF-8 names, attributes of every type incl. zero length, fixed and record variables, _enddef alignment arguments, alignment hints, redefinitions, data-mode metadata updates) with a raw-image checkpoint after every op: strict header decode by the independent codec, layout rules, library reports vs file; non-trivial = at least 2 checkpoints decoded a file with >= 1 variable",
               [](bool th) { GenParams g; g.checkpoint_each = true; g.utf8_names = true; g.align_args = true; g.hints = true; g.redef = true; g.meta_heavy = true; g.max_np = 4; g.max_data_ops = th ? 14 : 8; g.multi_file = th; return g; },
               [](const Program &q, const RunResult &r) { int n = 0; for (auto &op : q.ops) if (!op.skip && op.kind == OP_CHECKPOINT) n++; return r.completed && n >= 2 && r.st.bytes_written > 0; });
        simple("C05", "one seed = one history of collective / independent / nonblocking writes to record variables by subsets of 2..8 ranks (strided record indices, zero-length, rewrites), mode switches, sync/sync_numrecs, partial waits, redef, reopen; every rank's reported record count is checked after every op and the header field at every checkpoint; non-trivial = record count grew at least twice on >= 2 ranks",
               [](bool th) { GenParams g; g.fill_rec_split = true; g.min_np = 2; g.max_np = th ? 8 : 6; g.nonblocking = true; g.redef = true; g.fill = true; g.max_data_ops = th ? 30 : 18; g.checkpoint_each = false; g.atts = false; g.max_dimlen = 3; g.hints = true; /* incl. intra-node aggregation, safe mode */ return g; },
               [](const Program &q, const RunResult &r) { int n = 0; for (auto &op : q.ops) if (!op.skip && (op.kind == OP_PUT || op.kind == OP_WAIT || op.kind == OP_FILL_VAR_REC)) n++; return r.completed && n >= 2 && q.cfg.sim.nprocs >= 2; });
        simple("C06", "one seed = build a file with data, then 1..3 redefinition deltas (attributes growing the header, new fixed / record variables, new alignment) with knob MOVE_UNIT in {1 B..4 KiB} so data moves take many rounds across 1..8 ranks; some redefinitions are aborted (byte-for-byte comparison with the image at ncmpi_redef), some creates are aborted (file must vanish); non-trivial = a redefinition with existing data completed or was aborted",
               [](bool th) { GenParams g; g.redef = true; g.knobs = true; g.align_args = true; g.hints = true; g.max_np = th ? 8 : 6; g.max_data_ops = th ? 24 : 14; g.fill = true; return g; },
               [has_kind](const Program &q, const RunResult &r) { return r.completed && has_kind(q, OP_REDEF) && r.st.bytes_written > 0; });
        simple("C07", "one seed = one history of def/put/overwrite/rename/delete on dimensions, variables, global and per-variable attributes in define and data mode, UTF-8 names, name-table sizes 1..3 via hints and growth knobs 1..3, interleaved with enddef/redef/close/open; all inquiries (by id and by name) are compared with the sequential model after the op and the header on disk at checkpoints; non-trivial = at least 3 metadata-changing ops and one inquiry sweep",
               [](bool th) { GenParams g; g.meta_heavy = true; g.utf8_names = true; g.hints = true; g.knobs = true; g.redef = true; g.max_np = 3; g.max_data_ops = th ? 20 : 12; g.checkpoint_each = true; g.all_forms = false; return g; },
               [has_kind](const Program &q, const RunResult &r) { int n = 0; for (auto &op : q.ops) if (!op.skip && (op.kind == OP_PUT_ATT || op.kind == OP_RENAME_ATT || op.kind == OP_RENAME_VAR || op.kind == OP_RENAME_DIM || op.kind == OP_DEL_ATT)) n++; return r.completed && n >= 3 && has_kind(q, OP_INQ); });
        simple("C13", "one seed = one program of bput/iput/iget/wait/cancel/attach/detach and blocking calls with buffers on both sides of the 4096-byte in-place-swap threshold, all swap hint settings, buffer datatypes with gaps; caller buffers sit between canaries, write buffers are compared byte-for-byte after the completing call, bput buffers are overwritten right after posting, ncmpi_inq_buffer_usage / NC_EINSUFFBUF are compared with the model after every op; non-trivial = a buffered put was posted and completed",
               [](bool th) { GenParams g; g.nonblocking = true; g.big = true; g.hints = true; g.knobs = true; g.max_np = 3; g.max_data_ops = th ? 30 : 18; g.erange = true; return g; },
               [has_kind](const Program &q, const RunResult &r) { return r.completed && (has_kind(q, OP_BPUT) || has_kind(q, OP_IPUT)) && has_kind(q, OP_WAIT); });
        simple("C16", "one seed = one schema with any subset of variables in fill mode (set_fill before/after definitions, def_var_fill with/without value), 1..8 ranks, partial writes, redefinitions adding fixed and record variables to files that already hold records, fill_var_rec; never-written elements are read through the API and decoded from the raw image; non-trivial = at least one fill-mode variable existed and was read or checkpointed",
               [](bool th) { GenParams g; g.fill_rec_split = true; g.fill = true; g.redef = true; g.max_np = th ? 8 : 6; g.max_data_ops = th ? 24 : 14; g.checkpoint_each = false; g.knobs = true; return g; },
               [](const Program &q, const RunResult &r) { bool f = false; for (auto &op : q.ops) if (!op.skip && (op.kind == OP_SET_FILL || op.kind == OP_DEF_VAR_FILL)) f = true; return r.completed && f; });
        simple("C08", "one seed = one program whose collective put/get calls (var1/var/vara/vars/varm, varn, vard families; fixed and record variables) give each of 2..8 ranks valid, zero-length or invalid arguments (bad varid, start, edge, negative count, stride, char/number mismatch), with safe mode on in a quarter of the seeds (errors then shared), intra-node aggregation and hints varied, eager/synchronising collectives and starvation in the schedule; the simulated MPI matches every collective by sequence number and reports the first mismatch or deadlock exactly; oracle: no mismatch, no hang, each rank's return code as documented (own error locally / shared in safe mode), valid ranks' data stored; non-trivial = at least one rank had an invalid or zero-length request in a collective call on >= 2 ranks",
               [](bool th) { GenParams g; g.fill_rec_split = true; g.invalid_args = true; g.min_np = 2; g.max_np = th ? 8 : 6; g.max_data_ops = th ? 20 : 12; g.hints = true; g.nonblocking = true; g.fill = true; g.max_dimlen = 4; return g; },
               [](const Program &q, const RunResult &r) { if (q.cfg.sim.nprocs < 2 || !r.completed) return false; for (auto &op : q.ops) if (!op.skip && (op.kind == OP_PUT || op.kind == OP_GET) && op.coll) for (auto &a : op.acc) if (!a.active || a.invalid || a.exp_rc != NC_NOERR) return true; return false; });
        {   // C14 mode state machine and error precedence
            Profile p; p.id = "C14"; p.level = "exploration"; p.exhaustive = false; p.space_seeds = 5 * 9 * 9 * 9;   // seeds 1..3645 are exactly the depth-3 histories (5 starts x 9^3 steps); later seeds are the seeded walks
            p.technique = "deterministic simulation: exhaustive (depth 3) and seeded (depth 12) histories of mode-changing calls (incl. a failing enddef) with probe calls from every API family, against a reference mode automaton";
            p.rule = "histories over the mode-changing alphabet {enddef, redef, begin_indep, end_indep, close+reopen rw, close+reopen ro, abort+reopen, define two over-sized variables + enddef (must fail with NC_EVARSIZE and stay in define mode; CDF-1/2), ncmpi__enddef} from five starts {created, opened writable, opened read-only, a file without variables opened writable, the same opened read-only}; after every step one probe call from each API family (define, attribute, set_fill, collective and independent get, collective put, multi-variable put (_all) and get (independent), copy_att from a second file that stays open read-only in data mode, nonblocking post+cancel, wait_all, wait, cancel, sync, sync_numrecs, buffer attach/detach, inquiry) is issued by all ranks; seeds map to all 5 x 9^3 = 3645 histories of depth 3 (enumerated completely every run) and to seeded walks of depth 4..12; oracle: return code == reference automaton (documented precedence EPERM, EINDEFINE, ... for put/get and put_att; either applicable code where no precedence is documented), a rejected call changes no byte of the file (image diff around it), leaves no nonblocking request pending, and later calls still behave as the automaton says; non-trivial = at least one call was rejected and one accepted";
            p.gen = [](uint64_t seed, bool th) {
                Program q; q.seed = seed; q.cfg.profile = "C14"; sim::Rng rng(seed * 2654435761ULL + 17);
                q.cfg.sim.nprocs = 1 + (int)(seed % 3 == 0 ? 0 : 1 + rng.below(2)); q.cfg.sim.node_of.assign(q.cfg.sim.nprocs, 0); q.cfg.sim.deviate = (seed % 2) ? 0.2 : 0; q.cfg.format = (int[]){1, 2, 5}[seed % 3];
                int np = q.cfg.sim.nprocs;
                Model gm; gm.init(np, 2); gm.cur_ops = &q.ops;
                auto emit = [&](Op op) -> bool { q.ops.push_back(op); gm.cur_ops = &q.ops; bool ok = model_step(gm, q.ops.back()); if (!ok) { q.ops.pop_back(); gm.opidx--; } return ok; };
                auto mk = [&](int kind) { Op o; o.kind = kind; o.file = 0; return o; };
                // prelude: a file with one fixed and one record variable and a record
                { Op c = mk(OP_CREATE); c.name = "/sim/m.nc"; c.a[0] = q.cfg.format; emit(c); Op d = mk(OP_DEF_DIM); d.name = "x"; d.a[0] = 3; emit(d); Op t = mk(OP_DEF_DIM); t.name = "t"; t.a[0] = 0; emit(t);
                  Op v = mk(OP_DEF_VAR); v.name = "v"; v.a[0] = NC_DOUBLE; v.dims = {0}; emit(v); Op w = mk(OP_DEF_VAR); w.name = "r"; w.a[0] = NC_DOUBLE; w.dims = {1, 0}; emit(w); { Op ta = mk(OP_PUT_ATT); ta.var = -1; ta.name = "title"; ta.att.type = NC_INT; ta.att.v = {7}; emit(ta); } emit(mk(OP_ENDDEF));
                  Op pu = mk(OP_PUT); pu.var = 1; pu.coll = true; for (int r = 0; r < np; r++) { Access a; a.form = F_VARA; a.start = {0, 0}; a.count = {1, 3}; a.memtype = MT_DOUBLE; a.active = (r == 0); if (!a.active) a.count = {0, 0}, a.active = true; pu.acc.push_back(a); } emit(pu);
                  emit(mk(OP_CLOSE)); }
                // ... and a file without any variable (dimensions and a global attribute only)
                { Op c = mk(OP_CREATE); c.name = "/sim/z.nc"; c.a[0] = q.cfg.format; emit(c); Op d = mk(OP_DEF_DIM); d.name = "x"; d.a[0] = 3; emit(d); Op t = mk(OP_DEF_DIM); t.name = "t"; t.a[0] = 0; emit(t);
                  Op a = mk(OP_PUT_ATT); a.var = -1; a.name = "title"; a.att.type = NC_INT; a.att.v = {4, 5}; emit(a); emit(mk(OP_ENDDEF)); emit(mk(OP_CLOSE)); }
                // ... and the source of the copy_att probes: it stays open read-only, in data mode, in a second slot for the whole history
                { Op c = mk(OP_CREATE); c.name = "/sim/y.nc"; c.a[0] = q.cfg.format; emit(c); Op a = mk(OP_PUT_ATT); a.var = -1; a.name = "title"; a.att.type = NC_INT; a.att.v = {1, 2, 3}; emit(a); emit(mk(OP_ENDDEF)); emit(mk(OP_CLOSE)); }
                { Op o = mk(OP_OPEN); o.file = 1; o.name = "/sim/y.nc"; o.a[0] = 0; emit(o); }
                const int NST = 5, NA = 9; const uint64_t NH = (uint64_t)NST * NA * NA * NA;
                uint64_t idx = (seed - 1) % (2 * NH); bool exhaustive = idx < NH;
                int start = exhaustive ? (int)(idx / (NA * NA * NA)) : (int)rng.below(NST);
                std::vector<int> steps;
                if (exhaustive) { uint64_t k = idx % (NA * NA * NA); for (int i = 0; i < 3; i++) { steps.push_back((int)(k % NA)); k /= NA; } }
                else { int n = 4 + (int)rng.below(9); for (int i = 0; i < n; i++) steps.push_back((int)rng.below(NA)); }
                if (start == 0) { Op c = mk(OP_CREATE); c.name = "/sim/n.nc"; c.a[0] = q.cfg.format; emit(c); Op d = mk(OP_DEF_DIM); d.name = "x"; d.a[0] = 3; emit(d); Op v = mk(OP_DEF_VAR); v.name = "v"; v.a[0] = NC_DOUBLE; v.dims = {0}; emit(v); Op ta = mk(OP_PUT_ATT); ta.var = -1; ta.name = "title"; ta.att.type = NC_INT; ta.att.v = {7}; emit(ta); }
                else { Op o = mk(OP_OPEN); o.name = start >= 3 ? "/sim/z.nc" : "/sim/m.nc"; o.a[0] = (start == 1 || start == 3); emit(o); }
                int pctr = 0;
                auto probes = [&]() {
                    static const int codes[] = {0, 17, 1, 2, 15, 4, 5, 6, 21, 22, 7, 8, 9, 10, 11, 16, 14};
                    for (int code : codes) {
                        Op pr = mk(OP_PROBE); pr.a[0] = code; pr.a[1] = rng.below(2); pr.name = "p" + std::to_string(pctr++);
                        // decide with the model whether the call will be rejected: wrap rejected calls in an image comparison
                        Model trial = gm; Op t = pr; trial.cur_ops = nullptr; bool ok = model_step(trial, t);
                        if (!ok) continue;
                        bool rejected = t.exp_rc != NC_NOERR;
                        if (rejected) { Op c3 = mk(OP_CHECKPOINT); c3.a[0] = 3; emit(c3); }
                        emit(pr);
                        if (rejected) { Op c4 = mk(OP_CHECKPOINT); c4.a[0] = 4; emit(c4); }
                    }
                    {   // copy of the larger attribute 'title' of the second file (open read-only, data mode) onto this file's 'title': the DESTINATION's mode and permission decide
                        Op ca = mk(OP_COPY_ATT); ca.file = 1; ca.var = -1; ca.a[0] = 0; ca.a[1] = -1; ca.a[2] = 0;
                        Model trial = gm; Op t = ca; trial.cur_ops = nullptr;
                        if (model_step(trial, t)) { bool rejected = t.exp_rc != NC_NOERR; if (rejected) { Op c3 = mk(OP_CHECKPOINT); c3.a[0] = 3; emit(c3); } emit(ca); if (rejected) { Op c4 = mk(OP_CHECKPOINT); c4.a[0] = 4; emit(c4); } }
                    }
                };
                probes();
                std::string path = start == 0 ? "/sim/n.nc" : start >= 3 ? "/sim/z.nc" : "/sim/m.nc";
                for (int st : steps) {
                    Op o = mk(OP_BARRIER);
                    switch (st) {
                    case 0: o = mk(OP_ENDDEF); o.a[4] = 1; emit(o); break;
                    case 1: o = mk(OP_REDEF); o.a[4] = 1; emit(o); break;
                    case 2: o = mk(OP_BEGIN_INDEP); o.a[4] = 1; emit(o); break;
                    case 3: o = mk(OP_END_INDEP); o.a[4] = 1; emit(o); break;
                    case 4: case 5: emit(mk(OP_CLOSE)); { Op op2 = mk(OP_OPEN); op2.name = path; op2.a[0] = (st == 4); emit(op2); } break;
                    case 6: emit(mk(OP_ABORT)); { Op op2 = mk(OP_OPEN); op2.name = path; op2.a[0] = 1; emit(op2); } break;
                    case 8: o = mk(OP_ENDDEF2); o.a[0] = 0; o.a[1] = 4; o.a[2] = 0; o.a[3] = 4; o.a[4] = 1; emit(o); break;   // the five-argument form: same mode rules as ncmpi_enddef
                    case 7: { Op pz = mk(OP_PROBE); pz.a[0] = 20; pz.name = "z" + std::to_string(pctr++); emit(pz); } break;   // a definition enddef must refuse (NC_EVARSIZE): the file stays in define mode
                    }
                    probes();
                }
                if (!emit(mk(OP_CLOSE))) emit(mk(OP_ABORT)); { Op c1 = mk(OP_CLOSE); c1.file = 1; emit(c1); } { Op cp = mk(OP_CHECKPOINT); emit(cp); }
                gm.cur_ops = nullptr;
                return q;
            };
            p.check = [](Program &q) { RunOpts o; return run_program(q, o); };
            p.nontrivial = [](const Program &q, const RunResult &r) { bool rej = false, acc = false; for (auto &op : q.ops) if (!op.skip && (op.kind == OP_PROBE || op.a[4] == 1)) { if (op.exp_rc != NC_NOERR) rej = true; else acc = true; } return r.completed && rej && acc; };
            reg(p);
        }
        {   // C15 out-of-range requests rejected; writes stay inside their target
            struct Blk { std::vector<long long> shape; bool rec; int form; bool nb; bool rd; bool strict; long long ntup; long long first_prog; };
            static std::vector<Blk> blocks; static long long total_progs = 0; static const int B = 24;
            auto dom = [](const Blk &b, size_t d, int &ns, int &nc, int &nst) { long long len = b.shape[d]; ns = (int)len + 3; nc = (b.form == F_VAR1) ? 1 : (int)len + 3; nst = (b.form == F_VARS || b.form == F_VARM) ? 5 : 1; };
            if (blocks.empty()) {
                std::vector<std::vector<long long>> shapes = {{1}, {2}, {3}, {2, 3}, {3, 2}, {1, 3}, {2, 2, 2}};
                for (auto &sh : shapes) for (int rec = 0; rec < 2; rec++) for (int rd = 0; rd < 2; rd++) for (int strict = 0; strict < 2; strict++) {
                    std::vector<std::pair<int, bool>> forms = {{F_VARA, false}, {F_VAR1, false}, {F_VARN, false}, {F_VARA, true}};
                    if (sh.size() <= 2) { forms.push_back({F_VARS, false}); forms.push_back({F_VARM, false}); }
                    for (auto &fm : forms) {
                        Blk b; b.shape = sh; b.rec = rec; b.form = fm.first; b.nb = fm.second; b.rd = rd; b.strict = strict; b.ntup = 1;
                        for (size_t d = 0; d < sh.size(); d++) { int ns, nc, nst; dom(b, d, ns, nc, nst); b.ntup *= (long long)ns * nc * nst; }
                        b.first_prog = total_progs; total_progs += (b.ntup + B - 1) / B; blocks.push_back(b);
                    }
                }
            }
            Profile p; p.id = "C15"; p.level = "exploration"; p.space_seeds = total_progs;
            p.technique = "deterministic simulation: complete enumeration of (start,count,stride) tuples on small shapes with a byte diff of the simulated disk around every request";
            p.rule = "shapes {1},{2},{3},{2,3},{3,2},{1,3},{2,2,2} x {fixed, record} x {get, put} x {relaxed, strict coordinate bound} x API forms {vara, var1, varn, nonblocking vara + wait; vars and varm for rank <= 2}; per dimension start and count range over [-1, len+1] and stride over {-1,0,1,2,len+1}; every tuple of that product is one case (" + std::to_string(total_progs) + " programs of " + std::to_string(B) + " cases; seeds 1.." + std::to_string(total_progs) + " enumerate them all, later seeds repeat them under other schedules / formats / rank counts, record-variable puts on 2..3 ranks with intra-node aggregation (accepted tuples only) varn puts with an extra zero-length sub-request beyond the last record, flexible calls with derived buffer datatypes, and pairs of partially overlapping nonblocking puts completed by one wait); around each request the file image is snapshotted and diffed; oracle: return code == reference predicate (documented order EINVALCOORDS, EEDGE/ENEGATIVECNT, ESTRIDE), a rejected or zero-length request changes no byte, an accepted one only bytes of the addressed elements or the record count, values read back == model; non-trivial = the program contained both an accepted and a rejected request";
            p.gen = [dom](uint64_t seed, bool th) {
                Program q; q.seed = seed; q.cfg.profile = "C15";
                long long pi = (long long)((seed - 1) % (uint64_t)total_progs); uint64_t lap = (seed - 1) / (uint64_t)total_progs;
                size_t bi = 0; while (bi + 1 < blocks.size() && blocks[bi + 1].first_prog <= pi) bi++;
                const Blk &b = blocks[bi]; long long t0 = (pi - b.first_prog) * B;
                sim::Rng rng(seed * 0x9e3779b97f4a7c15ULL + 5);
                q.cfg.sim.nprocs = (lap == 0) ? 1 + (int)(pi % 2) : 1 + (int)rng.below(3);
                if (b.rec && !b.rd) q.cfg.sim.nprocs = 1;   // invalid arguments in a collective put to a record variable on several ranks: C08 known finding (zero-req path), kept out of this check
                // ... except on every second later lap: 2..3 ranks of one node with intra-node aggregation, and only the tuples the reference predicate accepts
                bool agg = lap >= 1 && lap % 2 == 1 && b.rec && !b.rd; if (agg) q.cfg.sim.nprocs = 2 + (int)rng.below(2);
                int np = q.cfg.sim.nprocs; q.cfg.sim.node_of.assign(np, 0);
                q.cfg.sim.deviate = lap ? 0.2 : 0.0; q.cfg.format = (int[]){1, 2, 5}[(pi + lap) % 3];
                if (b.strict) q.cfg.sim.env["PNETCDF_RELAX_COORD_BOUND"] = "0";
                Model gm; gm.init(np, 1); gm.strict_coord = b.strict; gm.cur_ops = &q.ops;
                auto emit = [&](Op op) -> bool { q.ops.push_back(op); gm.cur_ops = &q.ops; bool ok = model_step(gm, q.ops.back()); if (!ok) { q.ops.pop_back(); gm.opidx--; } return ok; };
                auto mk = [&](int kind) { Op o; o.kind = kind; o.file = 0; return o; };
                { Op c = mk(OP_CREATE); c.name = "/sim/r.nc"; c.a[0] = q.cfg.format; if (agg) c.hints["nc_num_aggrs_per_node"] = std::to_string(1 + (int)rng.below(np - 1)); emit(c); }
                size_t nd = b.shape.size();
                for (size_t d = 0; d < nd; d++) { Op dd = mk(OP_DEF_DIM); dd.name = "d" + std::to_string(d); dd.a[0] = (b.rec && d == 0) ? 0 : b.shape[d]; emit(dd); }
                { Op g = mk(OP_DEF_VAR); g.name = "guard0"; g.a[0] = NC_INT; g.dims = {}; if (nd > 1 || !b.rec) { g.dims = {(long long)(nd - 1)}; } emit(g); }
                { Op v = mk(OP_DEF_VAR); v.name = "v"; v.a[0] = (int[]){NC_INT, NC_SHORT, NC_DOUBLE, NC_BYTE}[pi % 4]; for (size_t d = 0; d < nd; d++) v.dims.push_back((long long)d); emit(v); }
                { Op g = mk(OP_DEF_VAR); g.name = "guard1"; g.a[0] = NC_SHORT; if (b.rec) g.dims = {0}; else g.dims = {(long long)(nd - 1)}; emit(g); }
                emit(mk(OP_ENDDEF));
                // pre-fill the target and its neighbours so that misplaced bytes are visible
                for (int var = 0; var < 3; var++) {
                    Op pu = mk(OP_PUT); pu.var = var; pu.coll = true; MVar &mv = gm.files[0].vars[var];
                    for (int r = 0; r < np; r++) { Access a; a.form = F_VARA; a.memtype = native_memtype(mv.type); a.start.assign(mv.dimids.size(), 0); a.count = mv.shape; if (mv.isrec) a.count[0] = b.shape[0]; if (r != 0) { a.active = mv.dimids.empty(); if (!mv.dimids.empty()) { a.active = true; a.count.assign(mv.dimids.size(), 0); } } pu.acc.push_back(a); }
                    emit(pu);
                }
                emit(mk(OP_SYNCPOINT));
                for (long long t = t0; t < t0 + B && t < b.ntup; t++) {
                    long long k = t; Access a; a.form = b.form; a.memtype = native_memtype(gm.files[0].vars[1].type);
                    a.start.assign(nd, 0); a.count.assign(nd, 1); if (b.form == F_VARS || b.form == F_VARM) a.stride.assign(nd, 1);
                    for (size_t d = 0; d < nd; d++) {
                        int ns, nc, nst; dom(b, d, ns, nc, nst); long long len = b.shape[d];
                        a.start[d] = -1 + (k % ns); k /= ns;
                        if (b.form != F_VAR1) { a.count[d] = -1 + (k % nc); } k /= nc;
                        if (nst > 1) { static const long long sv[] = {-1, 0, 1, 2, 0}; int si = (int)(k % nst); a.stride[d] = si == 4 ? len + 1 : sv[si]; } k /= nst;
                    }
                    if (b.form == F_VARM) { a.imap.assign(nd, 1); long long mm = 1; for (int d = (int)nd - 1; d >= 0; d--) { a.imap[d] = mm; mm *= std::max<long long>(a.count[d], 1); } }
                    if (b.form == F_VARN) { a.nstart = {a.start}; a.ncount = {a.count}; }
                    if (lap >= 1 && b.form != F_VAR1 && rng.chance(0.3)) { a.flexible = true; a.bufkind = (int)rng.below(8); }   // derived buffer datatypes (the count handed to MPI-IO is then in units of that type)
                    if (b.form == F_VARN && lap >= 1 && b.rec && !b.rd && rng.chance(0.5)) {   // plus a zero-length sub-request placed beyond the last record: it addresses nothing, so it must change nothing (incl. the record count)
                        std::vector<long long> zs(nd, 0), zc(nd, 1); zs[0] = gm.files[0].numrecs + 1 + (long long)rng.below(4); zc[rng.below(nd)] = 0;
                        if (rng.chance(0.5)) { a.nstart.push_back(zs); a.ncount.push_back(zc); } else { a.nstart.insert(a.nstart.begin(), zs); a.ncount.insert(a.ncount.begin(), zc); }
                    }
                    Op o = mk(b.nb ? (b.rd ? OP_IGET : OP_IPUT) : (b.rd ? OP_GET : OP_PUT)); o.var = 1; o.coll = true;
                    int actor = (int)(t % np);
                    for (int r = 0; r < np; r++) { Access x = a; x.active = (r == actor); o.acc.push_back(x); }
                    if (agg) { Model trial = gm; Op t2 = o; trial.cur_ops = nullptr; if (!model_step(trial, t2) || t2.acc[actor].exp_rc != NC_NOERR) continue; }
                    { Op c5 = mk(OP_CHECKPOINT); c5.a[0] = 5; emit(c5); }
                    emit(o);
                    if (b.nb && !b.rd && lap >= 1 && rng.chance(0.4)) {   // a second request that partially overlaps the first one (shifted by one along the last dimension), completed by the same wait
                        Op o2 = o; for (auto &x : o2.acc) if (x.active && !x.start.empty()) x.start.back() += 1;
                        Model trial = gm; Op t2 = o2; trial.cur_ops = nullptr; if (model_step(trial, t2) && t2.acc[actor].exp_rc == NC_NOERR) emit(o2);
                    }
                    if (b.nb) { Op w = mk(OP_WAIT); w.coll = true; w.waits.resize(np); for (auto &ws : w.waits) ws.mode = 1; emit(w); }
                    { Op c6 = mk(OP_CHECKPOINT); c6.a[0] = 6; emit(c6); }
                    if (!b.rd && (t % 4 == 3)) emit(mk(OP_SYNCPOINT));
                }
                emit(mk(OP_CLOSE)); emit(mk(OP_CHECKPOINT));
                gm.cur_ops = nullptr;
                return q;
            };
            p.check = [](Program &q) { RunOpts o; return run_program(q, o); };
            p.nontrivial = [](const Program &q, const RunResult &r) { bool rej = false, acc = false; for (auto &op : q.ops) if (!op.skip && (op.kind == OP_PUT || op.kind == OP_GET || op.kind == OP_IPUT || op.kind == OP_IGET)) for (auto &a : op.acc) if (a.active) { if (a.exp_rc != NC_NOERR) rej = true; else acc = true; } return r.completed && rej && acc; };
            p.quick_s = 60; p.thorough_s = 600;
            reg(p);
        }
        {   // C04 any specification-valid file is read back exactly
            Profile p; p.id = "C04"; p.level = "exploration";
            p.technique = "deterministic simulation: files produced by an independent encoder in dialects the library never writes, placed in the simulated file system and read by 1..4 simulated ranks under random chunk sizes";
            p.rule = "one seed = one random schema + data encoded by the independent CDF-1/2/5 encoder (arbitrary gaps between variables, extra header free space filled with random bytes, stale vsize, both encodings of empty lists, zero-length attributes, UTF-8 names, headers spanning several read chunks because the chunk knob is 64..4096 bytes) and opened by 1..4 ranks; expected results are what the independent decoder reads from those bytes; all inquiries and whole / partial reads of every variable are compared; non-trivial = the file has >= 1 variable with data and >= 1 attribute; distinct by file content hash x configuration";
            p.gen = [](uint64_t seed, bool th) {
                Program q; q.seed = seed; q.cfg.profile = "C04"; sim::Rng rng(seed * 48271 + 11);
                GenParams g; g.max_np = 4; g.knobs = false; g.hints = (seed % 4 == 0); gen_config(rng, q, g);
                q.cfg.sim.knobs["PNC_DEFAULT_CHUNKSIZE"] = (long)(rng.chance(0.3) ? 262144 : rng.chance(0.5) ? 4 * rng.range(16, 64) : 1 << rng.range(6, 12));
                extern std::vector<uint8_t> random_valid_file(uint64_t, bool, bool, int);
                q.preload.push_back({"/sim/in.nc", random_valid_file(seed, true, th, 0)});
                int np = q.cfg.sim.nprocs;
                Model gm; gm.init(np, 1); gm.cur_ops = &q.ops; annotate(gm, q);   // loads the preloaded file into the model's disk
                gm.cur_ops = &q.ops;
                auto emit = [&](Op op) -> bool { q.ops.push_back(op); gm.cur_ops = &q.ops; bool ok = model_step(gm, q.ops.back()); if (!ok) { q.ops.pop_back(); gm.opidx--; } return ok; };
                Op o; o.kind = OP_OPEN; o.file = 0; o.name = "/sim/in.nc"; o.a[0] = rng.chance(0.3); if (!emit(o)) return q;
                { Op i; i.kind = OP_INQ; i.file = 0; emit(i); }
                MFile &f = gm.files[0]; GenParams gp; gp.all_forms = true;
                for (size_t vi = 0; vi < f.vars.size(); vi++) {
                    int reps = 1 + (int)rng.below(2);
                    for (int k = 0; k < reps; k++) {
                        Op g2; g2.kind = OP_GET; g2.file = 0; g2.var = (int)vi; g2.coll = true; MVar &v = f.vars[vi];
                        for (int r = 0; r < np; r++) { Access a = (k == 0) ? Access() : gen_region_access(rng, v, f.numrecs, true, false, gp, 0); if (k == 0) { a.form = F_VAR; a.memtype = native_memtype(v.type); } g2.acc.push_back(a); }
                        emit(g2);
                    }
                }
                { Op c; c.kind = OP_CLOSE; c.file = 0; emit(c); }
                gm.cur_ops = nullptr;
                return q;
            };
            p.check = [](Program &q) { RunOpts o; o.layout_strict = false; return run_program(q, o); };
            p.nontrivial = [](const Program &q, const RunResult &r) { int gets = 0; for (auto &op : q.ops) if (!op.skip && op.kind == OP_GET) gets++; return r.completed && gets >= 1 && r.st.bytes_read > 40; };
            reg(p);
        }
        {   // C19 memory safety; malformed files fail cleanly
            struct SeedFile { std::vector<uint8_t> bytes; long long hdr; long long first_case, ncases; };
            static std::vector<SeedFile> pool; static long long total_cases = 0; static std::vector<std::vector<uint8_t>> specials;
            static const unsigned long long dict4[] = {0, 1, 2, 0xffffffffULL, 0x7fffffffULL, 0x80000000ULL, 0xfffffffeULL, 10, 11, 12, 6, 7, 0x00010000ULL, 0x7ffffffcULL};
            static const int ND = 16;   // 14 dictionary values + the original word +4 / -4 (a begin offset moved into its neighbour)
            auto build_pool = []() {
                if (!pool.empty()) return;
                extern std::vector<uint8_t> random_valid_file(uint64_t, bool, bool, int);
                std::vector<std::vector<uint8_t>> files;
                for (int ver : {1, 2, 5}) for (uint64_t k = 1; k <= 3; k++) { uint64_t sd = 1000 * ver + k; std::vector<uint8_t> b; for (int tries = 0; tries < 50; tries++) { b = random_valid_file(sd + 17 * tries, tries % 2, false, ver); if (b.size() > 120) break; } files.push_back(b); }
                { extern std::vector<uint8_t> highrank_valid_file(int, int); files.push_back(highrank_valid_file(1, 18)); files.push_back(highrank_valid_file(5, 33)); }
                {   // files that carry the HDF5 signature (at offset 0, and at 512 behind a block that is not 'CDF'): must be refused on every rank alike
                    static const uint8_t sig[8] = {0x89, 'H', 'D', 'F', '\r', '\n', 0x1a, '\n'};
                    std::vector<uint8_t> h0(sig, sig + 8); h0.resize(96, 0); specials.push_back(h0);
                    std::vector<uint8_t> h1(512, 0x01); h1.insert(h1.end(), sig, sig + 8); h1.resize(640, 0); specials.push_back(h1);
                }
                // library-written seed files: final images of three generated programs
                for (uint64_t k = 1; k <= 3; k++) { GenParams g; g.forced_np = true; g.np = 1; g.max_data_ops = 4; g.reopen = false; Program q = gen_program(7700 + k, g, "C19-seedfile"); RunOpts o; RunResult r = run_program(q, o); auto it = r.final_files.find("/sim/f0.nc"); if (it != r.final_files.end() && it->second.size > 0 && it->second.size < 100000) files.push_back(it->second.bytes(0, it->second.size)); }
                for (auto &b : files) {
                    sim::Inode tmp; tmp.write(0, b.data(), b.size()); tmp.vis.size = b.size(); tmp.vis.exists = true; cdf::File d; cdf::decode_header(tmp.vis, d);
                    SeedFile sf; sf.bytes = b; sf.hdr = std::min<long long>(d.header_len > 0 ? d.header_len : (long long)b.size(), (long long)b.size());
                    // cases: every truncation point of header + 8 bytes, every 4-byte word x dictionary, every 8-byte word x 4 extremes
                    sf.first_case = total_cases; sf.ncases = (sf.hdr + 9) + (sf.hdr / 4) * ND + (sf.hdr / 4) * 4; total_cases += sf.ncases; pool.push_back(sf);
                }
            };
            build_pool();
            Profile p; p.id = "C19"; p.level = "fault_enumeration"; p.space_seeds = total_cases;
            p.fault_kinds = {"stored-file truncation", "stored-file word substitution", "stored-file random multi-field corruption"};
            p.technique = "deterministic simulation with fault injection on stored bytes: every truncation point and every header word x extreme-value dictionary of seed files, opened by the real library built with AddressSanitizer + UndefinedBehaviorSanitizer";
            p.rule = "seed files: 9 encoder-written (3 per format CDF-1/2/5, half in non-library dialects), 2 encoder-written files with variables of 18..36 dimensions, and 3 library-written images; stored-byte faults applied before the file is opened: every truncation point 0..header+8, every aligned 4-byte header word replaced by each of 14 dictionary values (0,1,2,-1,2^31-1,2^31,2^32-2,tags 10/11/12,type codes 6/7,2^16,2^31-4) and by its own value +4 / -4 (an offset moved into the neighbouring variable) and every aligned 8-byte word by 4 extremes - " + std::to_string(total_cases) + " cases, one per seed 1.." + std::to_string(total_cases) + ", enumerated completely; later seeds apply 2..6 random byte/word corruptions or open a file carrying the HDF5 signature (at offset 0 / 512); the damaged file is opened by 1..3 simulated ranks, every inquiry is made and the first elements of every variable are read; oracle: no sanitizer report, no crash, no assert, no hang, open returns a netCDF error code or self-consistent metadata, no single allocation above 64 MiB + 16 x file size; non-trivial = the library got as far as reading the damaged header (>= 1 MPI-IO read); the check runs the sanitizer build in both tiers";
            p.gen = [](uint64_t seed, bool th) {
                Program q; q.seed = seed; q.cfg.profile = "C19"; sim::Rng rng(seed * 16807 + 3);
                q.cfg.sim.nprocs = 1 + (int)(seed % 3); q.cfg.sim.node_of.assign(q.cfg.sim.nprocs, 0); q.cfg.sim.deviate = (seed % 2) ? 0.2 : 0;
                if (seed % 5 == 0) q.cfg.sim.knobs["PNC_DEFAULT_CHUNKSIZE"] = (long)(1 << rng.range(6, 10));
                if (seed % 7 == 0) q.cfg.sim.env["PNETCDF_SAFE_MODE"] = "1";
                long long c = (long long)((seed - 1) % (uint64_t)std::max<long long>(total_cases, 1)); bool lap0 = (seed - 1) < (uint64_t)total_cases;
                if (!lap0 && seed % 2 == 0) {   // second half of the statement: valid programs of the other properties' generators on the sanitizer build
                    GenParams g; g.max_np = 4; g.max_data_ops = th ? 16 : 10; g.nonblocking = true; g.redef = true; g.fill = (seed % 4 == 0); g.hints = true; g.knobs = true; g.utf8_names = true; g.meta_heavy = (seed % 6 == 0); g.big = (seed % 8 == 0); g.align_args = true; g.erange = true; g.multi_file = (seed % 10 == 0);
                    return gen_program(seed, g, "C19");
                }
                size_t fi = 0; while (fi + 1 < pool.size() && pool[fi + 1].first_case <= c) fi++;
                const SeedFile &sf = pool[fi]; std::vector<uint8_t> b = sf.bytes; long long k = c - sf.first_case; std::string damage;
                if (lap0) {
                    if (k < sf.hdr + 9) { b.resize((size_t)std::min<long long>(k, (long long)b.size())); damage = "truncated#" + std::to_string(k); }
                    else if ((k -= sf.hdr + 9) < (sf.hdr / 4) * ND) { long long w = k / ND; unsigned long long v; if (k % ND < 14) v = dict4[k % ND]; else { unsigned long long o4 = 0; for (int i = 0; i < 4; i++) o4 = (o4 << 8) | b[(size_t)(w * 4 + i)]; v = (k % ND == 14) ? (o4 + 4) & 0xffffffffULL : (o4 - 4) & 0xffffffffULL; } damage = "word32#" + std::to_string(w * 4) + "=" + std::to_string(v); for (int i = 0; i < 4; i++) b[(size_t)(w * 4 + i)] = (uint8_t)(v >> (8 * (3 - i))); }
                    else { k -= (sf.hdr / 4) * ND; long long w = k / 4; static const unsigned long long d8[] = {~0ULL, 0x7fffffffffffffffULL, 0x8000000000000000ULL, 0x0000000100000000ULL}; unsigned long long v = d8[k % 4]; damage = "word64#" + std::to_string(w * 4) + "=" + std::to_string(v); for (int i = 0; i < 8 && (size_t)(w * 4 + i) < b.size(); i++) b[(size_t)(w * 4 + i)] = (uint8_t)(v >> (8 * (7 - i))); }
                } else {
                    if (!specials.empty() && seed % 16 == 1) { b = specials[(seed / 16) % specials.size()]; q.preload.push_back({"/sim/bad.nc", b}); Op o; o.kind = OP_OPENPROBE; o.file = 0; o.name = "/sim/bad.nc"; o.name2 = "seedfile-hdf5-signature#" + std::to_string((seed / 16) % specials.size()); q.ops.push_back(o); return q; }
                    fi = rng.below(pool.size()); b = pool[fi].bytes; int n = 2 + (int)rng.below(5); damage = "multi";
                    for (int i = 0; i < n && !b.empty(); i++) { size_t off = rng.below(std::min<size_t>(b.size(), (size_t)pool[fi].hdr + 16)); if (rng.chance(0.5)) b[off] ^= (uint8_t)(1u << rng.below(8)); else { unsigned long long v = dict4[rng.below(14)]; off &= ~(size_t)3; for (int j = 0; j < 4 && off + j < b.size(); j++) b[off + j] = (uint8_t)(v >> (8 * (3 - j))); } }
                    if (rng.chance(0.2)) b.resize(rng.below(b.size() + 1));
                }
                q.preload.push_back({"/sim/bad.nc", b});
                Op o; o.kind = OP_OPENPROBE; o.file = 0; o.name = "/sim/bad.nc"; o.name2 = "seedfile" + std::to_string(fi) + ":" + damage; q.ops.push_back(o);
                return q;
            };
            p.check = [](Program &q) {
                RunOpts o; o.check_leaks = true; long long fsz = q.preload.empty() ? 0 : (long long)q.preload[0].second.size(); o.alloc_limit = (64LL << 20) + 16 * fsz;
                if (q.preload.empty()) { RunOpts v; return run_program(q, v); }   // a valid program: every model oracle, on the sanitizer build
                q.cfg.sim.max_steps = 60000;   // a damaged header of a few hundred bytes must not need more (time related to the size of the file)
                RunResult r = run_program(q, o);
                if (!r.violations.empty() && !q.ops.empty() && r.violations[0].detail.find("seedfile") == std::string::npos) r.violations[0].detail += " [" + op_to_string(q.ops[0]) + "]";
                return r;
            };
            p.nontrivial = [](const Program &q, const RunResult &r) { return r.st.fileio >= 1; };
            p.assumptions = {"after the enumerated space every second seed runs a valid program of the common generator (nonblocking, redefinition, hints, knobs, UTF-8 names incl. non-NFC and 4-byte characters, NC_ERANGE) with all model oracles on the sanitizer build", "memory-safety verdicts come from the gcc AddressSanitizer/UndefinedBehaviorSanitizer build of the library and simulator (variant asan); uninitialised reads are not detected (MSan is unusable with uninstrumented libstdc++)", "valid programs of the other profiles are run under the same sanitizer build by their thorough tiers"};
            p.quick_s = 60; p.thorough_s = 600;
            reg(p);
        }
        {   // C10 hints, process count and execution modes never change results (configuration differential)
            Profile p; p.id = "C10"; p.level = "exploration";
            p.technique = "deterministic simulation: configuration differential - the same generated program executed on two simulated jobs (other hints incl. PNETCDF_HINTS vs MPI_Info form, safe mode, rank count and rank assignment, node topology / aggregators, knob values, schedule) with model oracles in both runs and a cross-run comparison of return codes and logical file content";
            p.rule = "one seed = one program of the C01/C02/C05-C07 fragment (blocking and nonblocking writes/reads, record variables, redefinition, attributes, fill) generated for configuration A (1..4 ranks, random hints); configuration B is derived from the seed: n' >= n ranks (<= 8) with the work of rank r moved to a random other rank and the extra ranks participating with zero-length requests, fresh random alignment / swap / ibuf / hash-size / header-collective / aggregators-per-node hints of which a random half is passed as MPI_Info and the rest through PNETCDF_HINTS, safe mode, node topology, internal size knobs and schedule parameters; oracles: both runs satisfy the reference model (values read, record counts, raw file decode); every call returns the same code in A and B on the corresponding rank; the final files have the same dimensions, attributes, variables, record count and every determinate element value (independent decoder); for files created in the run, ncmpi_inq_file_info reports the alignment the documented precedence of the settings dictates, the layout in the file honours it (first fixed variable, record section, h_minfree, v_minfree) and value hints are reported as set; non-trivial = both runs completed, data was written and B differs from A in rank count or hints";
            p.gen = [](uint64_t seed, bool th) {
                GenParams g; g.max_np = 4; g.max_data_ops = th ? 24 : 14; g.nonblocking = true; g.redef = true; g.fill = true; g.hints = true; g.knobs = true; g.align_args = true; g.big = (seed % 3 == 0); g.meta_heavy = (seed % 4 == 0); g.checkpoint_each = (seed % 5 == 0);
                return gen_program(seed, g, "C10");
            };
            p.check = [](Program &q) {
                RunOpts o; o.check_hints = true;
                RunResult ra = run_program(q, o);
                if (!ra.violations.empty()) { ra.violations[0].detail += " [configuration A]"; return ra; }
                // the property is stated for valid programs: a request with an argument error is outside its fragment (safe mode legitimately shares such codes, C08)
                for (auto &op : q.ops) if (!op.skip && (op.kind == OP_PUT || op.kind == OP_GET || op.kind == OP_IPUT || op.kind == OP_IGET || op.kind == OP_BPUT)) for (auto &a : op.acc) if (a.active && a.exp_rc != NC_NOERR && a.exp_rc != NC_EINSUFFBUF) return ra;
                // ---- derive configuration B
                Program b = q; sim::Rng rng(q.seed * 0x2545F4914F6CDD1DULL + 77);
                int np = q.cfg.sim.nprocs; int np2 = np + (int)rng.below((uint64_t)std::min(8 - np, 4) + 1);
                std::vector<int> slots(np2); for (int i = 0; i < np2; i++) slots[i] = i; for (int i = np2 - 1; i > 0; i--) std::swap(slots[i], slots[rng.below(i + 1)]);
                std::vector<int> perm(slots.begin(), slots.begin() + np);
                sim::SimConfig old = q.cfg.sim; b.cfg.sim = sim::SimConfig(); b.cfg.sim.max_steps = old.max_steps;
                for (auto &kv : old.env) if (kv.first != "PNETCDF_HINTS" && kv.first != "PNETCDF_SAFE_MODE") b.cfg.sim.env[kv.first] = kv.second;
                GenParams g; g.forced_np = true; g.np = np2; g.hints = true; g.knobs = true; gen_config(rng, b, g); b.cfg.format = q.cfg.format;
                // a random half of the hints travels as MPI_Info instead of the environment
                std::map<std::string, std::string> as_info;
                { auto e = b.cfg.sim.env.find("PNETCDF_HINTS"); if (e != b.cfg.sim.env.end()) { std::string h = e->second, keep; size_t pos = 0; while (pos < h.size()) { size_t sc = h.find(';', pos); if (sc == std::string::npos) sc = h.size(); std::string kv = h.substr(pos, sc - pos); size_t eq = kv.find('='); if (eq != std::string::npos && rng.chance(0.5)) as_info[kv.substr(0, eq)] = kv.substr(eq + 1); else keep += (keep.empty() ? "" : ";") + kv; pos = sc + 1; } if (keep.empty()) b.cfg.sim.env.erase("PNETCDF_HINTS"); else e->second = keep; } }
                for (auto &op : b.ops) {
                    if (op.kind == OP_CREATE || op.kind == OP_OPEN) for (auto &kv : as_info) op.hints[kv.first] = kv.second;
                    if (!op.acc.empty()) {
                        bool scalar = op.snap && op.var >= 0 && op.var < (int)op.snap->vars.size() && op.snap->vars[op.var].dimids.empty();
                        std::vector<Access> na(np2); std::vector<bool> set(np2, false);
                        for (int r = 0; r < np && r < (int)op.acc.size(); r++) { na[perm[r]] = op.acc[r]; if (na[perm[r]].vrank < 0) na[perm[r]].vrank = r; set[perm[r]] = true; }
                        for (int x = 0; x < np2; x++) if (!set[x]) { if (scalar && op.coll && (op.kind == OP_PUT || op.kind == OP_GET)) { na[x] = op.acc[0]; na[x].vrank = 0; } else { na[x] = Access(); na[x].active = false; na[x].form = op.acc[0].form; } }
                        op.acc = na;
                    }
                    if (!op.waits.empty()) { std::vector<WaitSpec> nw(np2); for (auto &w : nw) w.active = false; for (int r = 0; r < np && r < (int)op.waits.size(); r++) nw[perm[r]] = op.waits[r]; op.waits = nw; }
                    if (op.only_rank >= 0 && op.only_rank < np) op.only_rank = perm[op.only_rank];
                }
                RunResult rb = run_program(b, o);
                rb.st.steps += ra.st.steps; rb.st.coll += ra.st.coll; rb.st.fileio += ra.st.fileio; rb.st.switches += ra.st.switches; rb.st.bytes_written += ra.st.bytes_written; rb.st.bytes_read += ra.st.bytes_read; rb.st.ilv_hash ^= ra.st.ilv_hash * 31;
                auto cfgtxt = [&]() { std::string t = " [configuration B: nprocs=" + std::to_string(np2) + " ranks"; for (int r = 0; r < np; r++) t += " " + std::to_string(r) + "->" + std::to_string(perm[r]); for (auto &kv : b.cfg.sim.env) t += " " + kv.first + "=" + kv.second; for (auto &kv : as_info) t += " info:" + kv.first + "=" + kv.second; for (auto &kv : b.cfg.sim.knobs) t += " knob:" + kv.first + "=" + std::to_string(kv.second); return t + "]"; };
                if (!rb.violations.empty()) { rb.violations[0].detail += cfgtxt(); return rb; }
                auto diff = [&](int opi, const std::string &d) { sim::ViolationInfo v; v.kind = opi >= 0 ? "oracle:config-diff-rc" : "oracle:config-diff-file"; v.op = opi; v.detail = d + cfgtxt(); rb.violations.push_back(v); };
                // ---- same return codes on corresponding ranks
                for (size_t i = 0; i < q.ops.size() && rb.violations.empty(); i++) for (int r = 0; r < np; r++) {
                    const OpResult &x = ra.rcs[r][i], &y = rb.rcs[perm[r]][i];
                    // where the reference model itself leaves the code open (a read racing with another rank's later write may or may not hit NC_ERANGE) nothing is compared
                    if (q.ops[i].rc_any || (r < (int)q.ops[i].acc.size() && q.ops[i].acc[r].rc_any)) continue;
                    bool st_diff = x.statuses.size() != y.statuses.size(); for (size_t k = 0; k < x.statuses.size() && !st_diff; k++) if (x.statuses[k] != y.statuses[k] && x.statuses[k] != NC_ERANGE && y.statuses[k] != NC_ERANGE) st_diff = true;
                    bool rc_diff = x.rc != y.rc && !((q.ops[i].kind == OP_WAIT) && (x.rc == NC_ERANGE || y.rc == NC_ERANGE));
                    if (x.executed != y.executed || rc_diff || st_diff) { diff((int)i, op_to_string(q.ops[i], r) + ": rank " + std::to_string(r) + " got " + (x.executed ? ncmpi_strerrno(x.rc) : "(not executed)") + " under configuration A but rank " + std::to_string(perm[r]) + " got " + (y.executed ? ncmpi_strerrno(y.rc) : "(not executed)") + " under configuration B" + (st_diff ? " (request statuses differ)" : "")); break; }
                }
                // ---- same logical content of the final files
                { std::string why = final_files_differ(q, ra, rb); if (!why.empty() && rb.violations.empty()) diff(-1, why); }
                return rb;
            };
            p.nontrivial = [](const Program &q, const RunResult &r) { return r.completed && r.st.bytes_written > 0; };
            p.assumptions = {"only configurations with n' >= n ranks are paired (work is re-assigned to other ranks and extra ranks idle; an arbitrary re-partition of one rank's request over several ranks is not generated)", "hint values are drawn from the valid domain (hash sizes >= 1, positive sizes)"};
            p.quick_s = 40; p.thorough_s = 600;
            reg(p);
        }
        {   // C12 burst-buffer driver is transparent to the application
            Profile p; p.id = "C12"; p.level = "exploration";
            p.technique = "deterministic simulation with fault injection: generated programs run through the real burst-buffer driver (log files in the simulated POSIX file system, short reads/writes injected) and again through the default driver; reference-model oracles at every read, record-count inquiry and raw-image checkpoint, cross-driver comparison of the destination file, log-file census after close";
            p.rule = "one seed = one program inside the documented fragment (no element written twice between flushes, no vard, no fill_var_rec, cancel only of puts that are certainly still in the log) of blocking and nonblocking writes (var/var1/vara/vars/varm/varn, flexible buffers, all memory types) and reads on fixed and record variables by 1..4 ranks in collective and independent mode with redefinitions, executed with nc_burst_buf=enable, flush-buffer size in {1 B (one entry per round), 8, 64, 512, 4096, unlimited}, shared (per node) or per-process logs with block size knob 32..256 B, log directory hint, initial table sizes 1..4 (growth paths); half of the seeds inject 1..3 short POSIX reads/writes into log I/O; oracles: every rank reads back its own earlier writes (flush on read), after wait / flush / sync / redef / close + barrier the raw file holds every earlier write of every rank and the agreed record count (checkpoint decode), record count reported by each rank within [agreed, agreed + staged], the same program through the default driver leaves a logically equal file, after close no *.meta / *.data log file exists (all exist when nc_burst_buf_del_on_close=disable); non-trivial = run completed, >= 1 write was staged and flushed";
            p.fault_kinds = {"posix-short-io"};
            p.gen = [](uint64_t seed, bool th) {
                GenParams g; g.bb = true; g.max_np = 4; g.max_data_ops = th ? 24 : 14; g.nonblocking = true; g.redef = (seed % 3 != 0); g.fill = false; g.all_forms = (seed % 2 == 0); g.hints = false; g.knobs = false; g.big = (seed % 5 == 0); g.atts = (seed % 4 == 0); g.checkpoint_each = (seed % 3 == 0);
                Program q = gen_program(seed, g, "C12");
                sim::Rng rng(seed * 0x9E3779B1ULL + 12);
                static const long fb[] = {1, 8, 64, 512, 4096, 0};
                bool shared = rng.chance(0.4), keep = rng.chance(0.15); long fbs = fb[rng.below(6)]; bool dirhint = rng.chance(0.5);
                for (auto &op : q.ops) if (op.kind == OP_CREATE && op.hints.count("nc_burst_buf")) {
                    if (fbs) op.hints["nc_burst_buf_flush_buffer_size"] = std::to_string(fbs);
                    if (shared) op.hints["nc_burst_buf_shared_logs"] = "enable";
                    if (keep) op.hints["nc_burst_buf_del_on_close"] = "disable";
                    if (dirhint) op.hints["nc_burst_buf_dirname"] = "/bb";
                }
                if (shared) q.cfg.sim.knobs["NCBB_BLOCK_SIZE"] = (long)(1 << rng.range(5, 8));
                if (rng.chance(0.5)) q.cfg.sim.knobs["NCBB_PUT_ARRAY_SIZE"] = (long)rng.range(1, 4);
                if (rng.chance(0.5)) q.cfg.sim.knobs["NCBB_LOG_BUFFER_SIZE"] = (long)(1 << rng.range(5, 9));
                if (rng.chance(0.5)) q.cfg.sim.knobs["NCBB_LOG_ARRAY_SIZE"] = (long)rng.range(1, 4);
                if (rng.chance(0.3)) q.cfg.sim.knobs["NC_REQUEST_CHUNK"] = (long)rng.range(1, 4);
                if (seed % 2 && !q.ops.empty()) { int nf = 1 + (int)rng.below(3); for (int i = 0; i < nf; i++) { sim::Fault f; f.kind = sim::F_POSIX_SHORT; f.rank = (int)rng.below(q.cfg.sim.nprocs); f.op = (int)rng.below(q.ops.size()); f.nth = (int)rng.below(4); f.arg = 2 + (int)rng.below(7); f.errclass = 1; /* log-file I/O only */ q.faults.push_back(f); } }
                return q;
            };
            p.check = [](Program &q) {
                {   // closing a file while nonblocking requests are pending is an application error (NC_EPENDING) on which the two drivers legitimately differ: outside the fragment
                    Program t = q; Model m; annotate(m, t); bool out = false;
                    for (auto &op : t.ops) if (!op.skip && (op.kind == OP_CLOSE || op.kind == OP_ABORT)) for (int c : op.exp_rc_rank) if (c == NC_EPENDING) out = true;
                    for (auto &f : m.files) if (f.open) for (auto &rk : f.ranks) for (auto &rq : rk.reqs) if (rq.live) out = true;
                    if (out) { RunResult r; r.completed = true; return r; }
                }
                RunOpts o; RunResult rb = run_program(q, o);
                auto tag_known = [&](RunResult &r) {   // known finding: records of a cancelled staged put keep counting in the driver's record-dimension size
                    if (r.violations.empty()) return; sim::ViolationInfo &v = r.violations[0];
                    if (v.kind != "oracle:numrecs" && !(v.kind == "oracle:inq" && v.detail.find("unlimited dimension") != std::string::npos)) return;
                    for (size_t i = 0; i < q.ops.size() && (v.op < 0 || (int)i <= v.op); i++) if (!q.ops[i].skip && q.ops[i].note == "bb-cancel-staged-records") { v.detail += " [cancelled-staged-records: op#" + std::to_string(i) + " cancelled a staged put that would have extended the record dimension]"; return; }
                };
                tag_known(rb);
                if (!rb.violations.empty()) return rb;
                auto is_log = [](const std::string &n) { return n.size() > 5 && (n.compare(n.size() - 5, 5, ".meta") == 0 || n.compare(n.size() - 5, 5, ".data") == 0); };
                auto viol = [&](const char *kind, const std::string &d) { sim::ViolationInfo v; v.kind = kind; v.detail = d; rb.violations.push_back(v); };
                bool keep = false, bb = false; for (auto &op : q.ops) if (!op.skip && op.kind == OP_CREATE && op.hints.count("nc_burst_buf")) { bb = true; auto k = op.hints.find("nc_burst_buf_del_on_close"); if (k != op.hints.end() && k->second == "disable") keep = true; }
                int nlogs = 0; std::string first; for (auto &kv : rb.final_files) if (is_log(kv.first) && kv.second.exists) { nlogs++; if (first.empty()) first = kv.first; }
                if (bb && !keep && nlogs) { viol("oracle:log-left-behind", std::to_string(nlogs) + " burst-buffer log file(s) still exist after every file was closed, e.g. " + first); return rb; }
                if (bb && keep && !nlogs && rb.st.bytes_written > 0) { bool enddef = false; for (auto &op : q.ops) if (!op.skip && (op.kind == OP_ENDDEF || op.kind == OP_ENDDEF2 || op.kind == OP_CLOSE)) enddef = true; if (enddef) { viol("oracle:log-not-retained", "nc_burst_buf_del_on_close=disable but no log file exists after close"); return rb; } }
                // ---- the same program through the default driver
                Program d = q; d.faults.clear(); for (auto &op : d.ops) for (auto it = op.hints.begin(); it != op.hints.end();) if (it->first.compare(0, 12, "nc_burst_buf") == 0) it = op.hints.erase(it); else ++it;
                RunResult rd = run_program(d, o);
                rb.st.steps += rd.st.steps; rb.st.coll += rd.st.coll; rb.st.fileio += rd.st.fileio;
                if (!rd.violations.empty()) { rd.violations[0].detail += " [same program through the default driver]"; rd.faults = rb.faults; return rd; }
                std::string why = final_files_differ(q, rb, rd, true);
                if (!why.empty()) viol("oracle:driver-diff", why + " (burst-buffer driver vs default driver)");
                return rb;
            };
            p.nontrivial = [](const Program &q, const RunResult &r) { return r.completed && r.st.bytes_written > 0 && r.st.posix > 0; };
            p.assumptions = {"programs stay inside the documented limitations of the driver (README.burst_buffering.md, known issues 2 and 3) and use only calls whose behaviour the property states; request counts and attached-buffer accounting are not compared; a cancel that may hit an already flushed entry (documented NC_EFLUSHED) is outside the fragment", "return codes of range errors are not exercised (the driver reports them at flush time, known issue 1)", "short reads/writes are injected, EINTR is not (the driver reports it as an error, which the property does not forbid)"};
            p.quick_s = 40; p.thorough_s = 600;
            reg(p);
        }
        {   // C18 format size limits and 64-bit addressing
            struct Tpl { int type; std::vector<long long> dims; };   // a variable template (non-record dimensions)
            struct Case { int format; std::vector<std::pair<int, bool>> vars; /* (template index, record?) */ long long baddim; };
            static std::vector<Tpl> tpl[6]; static std::vector<Case> cases;
            if (cases.empty()) {
                const long long P31 = 1LL << 31, P32 = 1LL << 32, P29 = 1LL << 29, P30 = 1LL << 30, P28 = 1LL << 28;
                // index 0 is always the small template
                tpl[1] = {{NC_INT, {10}}, {NC_BYTE, {P31 - 5}}, {NC_BYTE, {P31 - 4}}, {NC_BYTE, {P31 - 3}}, {NC_SHORT, {P30 - 2}}, {NC_SHORT, {P30 - 1}}, {NC_INT, {P29}}, {NC_DOUBLE, {P28 - 1}}, {NC_INT, {3, P29}}};
                tpl[2] = {{NC_INT, {10}}, {NC_BYTE, {2, P31 - 2}}, {NC_BYTE, {2, P31 - 1}}, {NC_SHORT, {P31 - 2}}, {NC_SHORT, {P31 - 1}}, {NC_INT, {P30 - 1}}, {NC_INT, {P30}}, {NC_DOUBLE, {P29 - 1}}, {NC_BYTE, {P31 - 1}}, {NC_DOUBLE, {3, P29}}};
                tpl[5] = {{NC_INT, {10}}, {NC_INT, {P30}}, {NC_BYTE, {P32 + 7}}, {NC_DOUBLE, {P29 + 1}}, {NC_INT64, {(1LL << 60) - 1}}, {NC_DOUBLE, {1LL << 60}}, {NC_BYTE, {0x7fffffffffffffffLL - 3}}, {NC_BYTE, {0x7fffffffffffffffLL - 2}}, {NC_BYTE, {P32, P32}}, {NC_USHORT, {3, P31}}, {NC_BYTE, {3, 2, P31 + 16}}, {NC_SHORT, {P31 + 8}}};   // the last two: three dimensions with an inner length > 2^31-1 (row pitch of the two outer ones), and a > 2^31-1 inner dimension of a multi-byte type that becomes a 2-D record variable
                for (int f : {1, 2, 5}) {
                    int nt = (int)tpl[f].size(); std::vector<std::pair<int, bool>> alpha; for (int t = 0; t < nt; t++) { alpha.push_back({t, false}); alpha.push_back({t, true}); }
                    for (size_t a = 0; a < alpha.size(); a++) { cases.push_back({f, {alpha[a]}, 0});
                        for (size_t b = 0; b < alpha.size(); b++) { cases.push_back({f, {alpha[a], alpha[b]}, 0});
                            for (size_t c2 = 0; c2 < alpha.size(); c2++) { int big = (alpha[a].first != 0) + (alpha[b].first != 0) + (alpha[c2].first != 0); if (big <= 2) cases.push_back({f, {alpha[a], alpha[b], alpha[c2]}, 0}); } } }
                    for (long long bd : {-1LL, P31 - 1, P31, P32 - 1, P32, 0x7fffffffffffffffLL}) cases.push_back({f, {{0, false}}, bd});
                }
            }
            Profile p; p.id = "C18"; p.level = "exploration"; p.space_seeds = (long)cases.size();
            p.technique = "deterministic simulation: enumeration of definition sets around every size threshold of the three formats on the sparse simulated file system, with element accesses on both sides of 2^31 / 2^32 checked against the raw image";
            p.rule = "variable templates per format with byte sizes just below / at / above 2^31-4 (CDF-1), 2^32-4 (CDF-2) and 2^63-4 (CDF-5, incl. a 2^64 overflow) plus a small one; every sequence of 1..3 variables (each fixed or record, at most two large) is one case, plus dimension lengths -1, 2^31-1, 2^31, 2^32-1, 2^32, 2^63-1 per format: " + std::to_string(cases.size()) + " cases, seeds 1.." + std::to_string(cases.size()) + " enumerate them all; later seeds repeat them with 1..3 ranks / other schedules and, in turn, (1) the variables split over two define-mode sessions (enddef, redef, enddef: the rule applies to the whole list), (2) pairs of nonblocking writes completed by one wait whose distance is exactly k*2^32 bytes, within one variable or across variables, (3) hint nc_num_aggrs_per_node with two ranks writing blocks 2^31..2^32 (+k*2^32) bytes apart in one collective call; on all later laps record indices 2^31-2 (CDF-2: the largest count of the 32-bit field), 2^31+1 and 2^32+1 (CDF-5) are written and the record count is compared in memory on every rank, in the header on disk and after reopen; oracle (a) def_dim and enddef return codes against a rule table written from the format limits (exact integer arithmetic); (b) for accepted definitions the header on the sparse simulated disk decodes strictly, begins are ordered / non-overlapping / below 2^31 in CDF-1, vsize saturates as specified, ncmpi_inq_varoffset agrees; first / last elements, elements whose byte offsets straddle 2^31 and 2^32, a 2-element box and a strided pair are written (blocking, nonblocking, strided) by alternating ranks, found at the independently computed byte offset of the raw image and read back by every rank; non-trivial = the case reached enddef";
            p.gen = [](uint64_t seed, bool th) {
                Program q; q.seed = seed; q.cfg.profile = "C18";
                size_t ci = (size_t)((seed - 1) % cases.size()); uint64_t lap = (seed - 1) / cases.size(); const Case &cs = cases[ci];
                q.cfg.sim.nprocs = lap == 0 ? 1 + (int)(ci % 2) : 1 + (int)((seed * 7) % 3); q.cfg.sim.node_of.assign(q.cfg.sim.nprocs, 0); q.cfg.sim.deviate = lap ? 0.2 : 0; q.cfg.format = cs.format;
                BigCase bc; bc.format = cs.format; bool anyrec = false; for (auto &v : cs.vars) anyrec = anyrec || v.second;
                if (cs.baddim) { bc.dimlen.push_back(cs.baddim); }
                else {
                    if (anyrec) bc.dimlen.push_back(0);
                    for (auto &v : cs.vars) { const Tpl &t = tpl[cs.format][v.first]; BigCase::Var x; x.type = t.type; if (v.second) x.dimids.push_back(0); for (auto d : t.dims) { bc.dimlen.push_back(d); x.dimids.push_back((int)bc.dimlen.size() - 1); } bc.vars.push_back(x); }
                    // accesses (skipped by the executor when the definitions are rejected)
                    int k = 0;
                    for (size_t vi = 0; vi < bc.vars.size(); vi++) {
                        const BigCase::Var &x = bc.vars[vi]; size_t nd = x.dimids.size(); bool rec = cs.vars[vi].second; int xs = cdf::type_size(x.type);
                        std::vector<long long> len(nd); for (size_t d = 0; d < nd; d++) len[d] = bc.dimlen[x.dimids[d]] == 0 ? 3 : bc.dimlen[x.dimids[d]];   // 3 records
                        auto add = [&](std::vector<long long> st, std::vector<long long> ct, int mode, std::vector<long long> sd = {}) { BigCase::Acc a; a.var = (int)vi; a.mode = mode; a.writer = k++; a.start = st; a.count = ct; a.stride = sd.empty() ? std::vector<long long>(nd, 1) : sd; bc.acc.push_back(a); };
                        std::vector<long long> zero(nd, 0), one(nd, 1), last(nd); for (size_t d = 0; d < nd; d++) last[d] = len[d] - 1;
                        add(zero, one, 0); add(last, one, 1);
                        if (len[nd - 1] >= 2) { auto st = last; st[nd - 1] = len[nd - 1] - 2; auto ct = one; ct[nd - 1] = 2; add(st, ct, 0); }
                        if (len[nd - 1] >= 3) { auto st = zero; if (rec) st[0] = 1; auto ct = one; ct[nd - 1] = 2; std::vector<long long> sd(nd, 1); sd[nd - 1] = len[nd - 1] - 1; add(st, ct, 2, sd); }
                        if (nd >= 2) {   // strided requests that start in / span the outer dimensions (displacements of whole inner slabs of >= 2^31 bytes)
                            if (len[nd - 1] >= 3) { auto st = last; st[nd - 1] = 0; auto ct = one; ct[nd - 1] = 2; std::vector<long long> sd(nd, 1); sd[nd - 1] = len[nd - 1] - 1; add(st, ct, 2, sd); }
                            if (len[0] >= 3 && len[nd - 1] >= 3) { auto ct = one; ct[0] = 2; ct[nd - 1] = 2; std::vector<long long> sd(nd, 1); sd[0] = len[0] - 1; sd[nd - 1] = len[nd - 1] - 1; add(zero, ct, 2, sd); }
                            if (nd >= 3 && len[1] >= 3 && len[nd - 1] >= 3) { auto st = zero; if (rec) st[0] = 1; auto ct = one; ct[1] = 2; ct[nd - 1] = 2; std::vector<long long> sd(nd, 1); sd[1] = len[1] - 1; sd[nd - 1] = len[nd - 1] - 1; add(st, ct, 2, sd); }
                        }
                        if (nd >= 2 && len[nd - 1] >= 5) {   // a box of several partial rows (a subarray whose row pitch is the full - possibly > 2^31 / 2^32 - inner length), blocking and nonblocking
                            for (int md = 0; md < 2; md++) { size_t od = (rec && nd >= 3 && md) ? 1 : 0; if (len[od] < 2) continue; auto st = zero; st[nd - 1] = 1 + md; auto ct = one; ct[od] = 2; ct[nd - 1] = 3; add(st, ct, md); }
                        }
                        if (rec && cs.format != 1 && lap >= 1) {   // record indices at the limit of the 32-bit count (CDF-2: record 2^31-2) and beyond 2^31 / 2^32 (CDF-5): the record count itself needs more than 32 bits
                            __int128 rs = 0; for (size_t vj = 0; vj < bc.vars.size(); vj++) if (cs.vars[vj].second) { __int128 b = cdf::type_size(bc.vars[vj].type); for (size_t d = 1; d < bc.vars[vj].dimids.size(); d++) b *= (__int128)bc.dimlen[bc.vars[vj].dimids[d]]; rs += (b + 3) / 4 * 4; }
                            if (rs > 0 && rs < (1 << 20)) { auto st = zero; st[0] = cs.format == 5 ? (1LL << 31) + 1 : (1LL << 31) - 2 /* the largest record count a 32-bit NON_NEG field can hold is 2^31-1 */; add(st, one, (int)(vi % 2)); if (cs.format == 5) { st[0] = (1LL << 32) + 1; add(st, one, (int)((vi + 1) % 2)); } }
                        }
                        // elements whose byte offset inside the variable (or record) is just below / at 2^31 and 2^32
                        for (long long B : {1LL << 31, 1LL << 32}) {
                            long long e0 = B / xs - 1; std::vector<long long> st(nd, 0); long long rem = e0; bool ok = true;
                            for (int d = (int)nd - 1; d >= (rec ? 1 : 0); d--) { st[d] = rem % len[d]; rem /= len[d]; } if (rem != 0) ok = false;
                            if (!ok) continue;
                            if (rec) st[0] = 2;
                            if (st[nd - 1] + 1 < len[nd - 1]) { auto ct = one; ct[nd - 1] = 2; add(st, ct, (int)(k % 2)); } else add(st, one, 0);
                        }
                    }
                }
                if (lap >= 1 && !cs.baddim) {
                    // later laps: the same definitions with (1) the variables split over two define-mode sessions, (2) two nonblocking writes completed by one wait that lie exactly
                    // k * 2^32 bytes apart (end of the lower to start of the upper), (3) intra-node aggregation with two ranks writing > 2 GiB apart in one collective call
                    sim::Rng vr(seed * 1099511628211ULL + 5); int variant = (int)(lap % 4);
                    typedef __int128 i128;
                    struct FV { size_t vi; i128 pos, bytes; int xs; std::vector<long long> len; };
                    std::vector<FV> fv; { i128 pos = 0; for (size_t vi = 0; vi < bc.vars.size(); vi++) { if (cs.vars[vi].second) continue; FV f; f.vi = vi; f.pos = pos; f.xs = cdf::type_size(bc.vars[vi].type); f.bytes = f.xs; for (auto d : bc.vars[vi].dimids) { f.len.push_back(bc.dimlen[d]); f.bytes *= (i128)bc.dimlen[d]; } if (f.bytes > ((i128)1 << 70)) break; fv.push_back(f); pos += (f.bytes + 3) / 4 * 4; } }
                    auto unlin = [](const FV &f, i128 e) { std::vector<long long> st(f.len.size(), 0); for (int d = (int)f.len.size() - 1; d >= 0; d--) { st[d] = (long long)(e % (i128)f.len[d]); e /= (i128)f.len[d]; } return st; };
                    auto block = [&](const FV &f, i128 e, long long want, int mode, int writer) -> long long {   // a contiguous block of <= want elements starting at linear element e; returns its element count (0: does not fit)
                        if (f.len.empty() || e < 0 || e * f.xs >= f.bytes) return 0;
                        std::vector<long long> st = unlin(f, e); long long room = f.len.back() - st.back(); long long cnt = std::min(want, room); if (cnt <= 0) return 0;
                        BigCase::Acc a; a.var = (int)f.vi; a.mode = mode; a.writer = writer; a.start = st; a.count.assign(f.len.size(), 1); a.count.back() = cnt; a.stride.assign(f.len.size(), 1); bc.acc.push_back(a); return cnt;
                    };
                    if (variant == 1 && bc.vars.size() >= 2) bc.split = 1 + (int)vr.below(bc.vars.size() - 1);
                    if (variant == 2) {
                        int w = 0;
                        for (auto &fa : fv) for (int where = 0; where < 2; where++) for (long long kk : {1LL, 2LL}) {
                            i128 nel = fa.bytes / fa.xs; i128 eA = where == 0 ? (i128)vr.below(8) : nel / 3; long long cA = 1 + (long long)vr.below(4);
                            size_t mark = bc.acc.size(); long long gotA = block(fa, eA, cA, 3, w); if (!gotA) continue;
                            i128 target = fa.pos + eA * fa.xs + (i128)gotA * fa.xs + ((i128)kk << 32); bool placed = false;
                            for (auto &fb : fv) { if (target < fb.pos || target >= fb.pos + fb.bytes) continue; i128 ob = target - fb.pos; if (ob % fb.xs) break; if (block(fb, ob / fb.xs, 1 + (long long)vr.below(3), 1, w)) placed = true; break; }
                            if (!placed) { bc.acc.resize(mark); continue; }
                            if (vr.chance(0.5)) { std::swap(bc.acc[mark], bc.acc[mark + 1]); bc.acc[mark].mode = 3; bc.acc[mark + 1].mode = 1; }   // either posting order
                            w++;
                        }
                    }
                    if (variant == 3) {
                        q.cfg.sim.nprocs = 2 + (int)vr.below(2); q.cfg.sim.node_of.assign(q.cfg.sim.nprocs, 0); bc.aggr = 1 + (int)vr.below(q.cfg.sim.nprocs - 1);
                        for (auto &fa : fv) {
                            if (fa.bytes < ((i128)1 << 31) + 65536) continue;
                            for (long long kk : {0LL, 1LL}) {
                                i128 D = ((i128)kk << 32) + ((i128)1 << 31) + 4096 * (i128)vr.below(8); if (D + 64 > fa.bytes) continue;
                                int w0 = (int)vr.below(q.cfg.sim.nprocs), w1 = (w0 + 1 + (int)vr.below(q.cfg.sim.nprocs - 1)) % q.cfg.sim.nprocs;
                                size_t mark = bc.acc.size(); i128 eA = (i128)vr.below(8);
                                if (!block(fa, eA, 1 + (long long)vr.below(4), 4, w0)) continue;
                                if (!block(fa, eA + D / fa.xs, 1 + (long long)vr.below(4), 5, w1)) { bc.acc.resize(mark); continue; }
                            }
                        }
                    }
                }
                Op o; o.kind = OP_BIGCASE; o.file = 0; o.att.v = bigcase_encode(bc); q.ops.push_back(o);
                return q;
            };
            p.check = [](Program &q) { RunOpts o; o.check_leaks = true; return run_program(q, o); };
            p.nontrivial = [](const Program &q, const RunResult &r) { return r.completed && r.st.coll > 0; };
            p.assumptions = {"part (a) (acceptance rule) is an input rule with no schedule in it; it is decided here because it is the precondition of part (b) and shares its executor", "accesses are limited to byte offsets <= 2^62 (MPI_Offset is a signed 64-bit integer)"};
            p.quick_s = 40; p.thorough_s = 300;
            reg(p);
        }
        {   // C17 lifecycle of handles and resources
            Profile p; p.id = "C17"; p.level = "exploration";
            p.technique = "deterministic simulation with fault injection: seeded histories over several files + resource accounting at the allocation / MPI-object seams";
            p.rule = "one seed = one history of create/open/close/abort over 1..3 files that are open at the same time, every API family in between, calls on stale / negative / huge / unused ids while other files are open, close with pending nonblocking requests; odd seeds additionally inject 1..2 faults (MPI-IO data errors, open/close/sync/set_view/delete errors) at random positions with relaxed return-code oracles; oracle: NC_EBADID / NC_EPENDING as documented, no crash, files independent (per-file model), and when the last file is closed zero live library heap blocks, MPI datatypes, communicators, info objects, file handles, requests and file descriptors on every rank; non-trivial = >= 2 files or a bad-id call or a fired fault";
            p.fault_kinds = {"io-error", "open-error", "close-error", "sync-error", "setview-error", "delete-error"};
            p.gen = [](uint64_t seed, bool th) {
                GenParams g; g.multi_file = true; g.badids = true; g.close_pending = true; g.nonblocking = true; g.redef = true; g.fill = true; g.max_np = 3; g.max_data_ops = th ? 14 : 8; g.max_dimlen = 4; g.knobs = true; g.hints = (seed % 3 == 0);   // incl. intra-node aggregation state
                if (seed % 61 == 0) {   // the open-file table: up to NC_MAX_NFILES files at once, closed in non-LIFO order, refusal of the next one
                    Program m; m.seed = seed; m.cfg.profile = "C17"; sim::Rng mr(seed * 31 + 7); m.cfg.sim.nprocs = 1 + (int)mr.below(2); m.cfg.sim.node_of.assign(m.cfg.sim.nprocs, 0); m.cfg.format = 1;
                    Op o; o.kind = OP_MANYFILES; o.file = 0; static const long long n1s[] = {1024, 600, 1023, 700, 513}; o.a[0] = n1s[mr.below(5)]; o.a[1] = (long long)mr.range(1, 200); o.a[2] = (long long)mr.below(3); m.ops.push_back(o);
                    return m;
                }
                Program q = gen_program(seed, g, "C17");
                if (seed % 2) {
                    sim::Rng rng(seed * 7919 + 13); int nf = 1 + (int)rng.below(2);
                    static const int kinds[] = {sim::F_IO_DATA, sim::F_IO_DATA, sim::F_IO_DATA, sim::F_OPEN, sim::F_CLOSE, sim::F_SYNC, sim::F_SETVIEW, sim::F_DELETE};
                    static const int classes[] = {MPI_ERR_IO, MPI_ERR_NO_SPACE, MPI_ERR_QUOTA, MPI_ERR_ACCESS, MPI_ERR_READ_ONLY, MPI_ERR_FILE, MPI_ERR_OTHER, MPI_ERR_NO_SUCH_FILE, MPI_ERR_BAD_FILE};
                    for (int i = 0; i < nf && !q.ops.empty(); i++) { sim::Fault f; f.kind = kinds[rng.below(8)]; f.rank = (int)rng.below(q.cfg.sim.nprocs); f.op = (int)rng.below(q.ops.size()); f.nth = (int)rng.below(3); f.errclass = classes[rng.below(9)]; q.faults.push_back(f); }
                }
                return q;
            };
            p.check = [](Program &q) {
                RunOpts o;
                if (!q.faults.empty()) { o.check_rc = false; o.check_data = false; o.check_files = false; }
                RunResult r = run_program(q, o);
                if (!q.faults.empty() && !r.violations.empty()) {
                    // after an injected error the ranks may legitimately diverge (e.g. one rank's create failed): only memory/resource/usage verdicts are kept
                    bool fired = false; for (auto &f : r.faults) fired = fired || f.fired;
                    const std::string &k = r.violations[0].kind;
                    if (fired && (k == "hang" || k == "collective-mismatch" || k == "livelock")) r.violations.clear();
                }
                return r;
            };
            p.nontrivial = [](const Program &q, const RunResult &r) { int nf = 0; bool bad = false; for (auto &op : q.ops) if (!op.skip) { if (op.kind == OP_CREATE) nf++; if (op.kind == OP_BADID) bad = true; } bool fired = false; for (auto &f : r.faults) fired = fired || f.fired; return nf >= 2 || bad || fired; };
            p.assumptions = {"in fault-injecting runs hangs and collective mismatches after the first fired fault are not judged (ranks may legitimately diverge after an error only some of them saw)"};
            reg(p);
        }
        {   // C11 fault enumeration: every data-transfer MPI-IO call x error class, one fault per run
            Profile p; p.id = "C11"; p.level = "fault_enumeration";
            p.technique = "deterministic simulation with fault injection: single-fault enumeration over every data-transfer MPI-IO call of sampled programs";
            p.rule = "each seed generates one program (header write, numrecs update, data movement at redefinition, fill, blocking / nonblocking data I/O, independent mode, reopen); it is run fault-free recording every MPI-IO data-transfer call that moves >= 1 byte (rank, op, ordinal, library call site); then one run per (call, error class in {IO, NO_SPACE, QUOTA, ACCESS, READ_ONLY, FILE, OTHER}) injects exactly that fault; oracle: the API call executing on the faulted rank (or the wait completing the request / a status) returns an error, every rank returns from the call, no collective mismatch; non-trivial = the fault fired; distinct by (program shape, fault position, class, interleaving)";
            p.fault_kinds = {"io-error"};
            p.gen = [](uint64_t seed, bool th) { GenParams g; g.max_np = 4; g.redef = true; g.fill = true; g.nonblocking = true; g.max_data_ops = th ? 14 : 8; g.knobs = true; g.hints = (seed % 3 == 0); g.meta_heavy = (seed % 2 == 0); /* data-mode header rewrites */ g.max_dimlen = 4; g.reopen = true; g.syncpoint_after_write = false; return gen_program(seed, g, "C11"); };
            p.check = [](Program &q) {
                RunOpts o;
                if (q.faults.empty()) { o.record_iocalls = true; return run_program(q, o); }
                o.check_rc = false; o.check_data = false; o.check_files = false; o.check_leaks = false; o.stop_after_op = q.faults[0].op;
                RunResult r = run_program(q, o);
                if (!r.violations.empty()) return r;
                for (auto &f : r.faults) {
                    if (!f.fired || (f.kind != sim::F_IO_DATA && f.kind != sim::F_IO_ZERO)) continue;
                    if (f.op < 0 || f.op >= (int)q.ops.size()) continue;
                    const OpResult &orr = r.rcs[f.rank][f.op];
                    bool reported = orr.executed && orr.rc != NC_NOERR;
                    for (int st : orr.statuses) if (st != NC_NOERR && st != 12345) reported = true;
                    if (!reported) {
                        sim::ViolationInfo v; v.kind = "oracle:io-error-dropped"; v.rank = f.rank; v.op = f.op;
                        v.detail = std::string(f.mpi_call) + " failed with " + sim::errclass_name(f.errclass) + " (" + std::to_string(f.bytes) + " bytes) @" + f.site + " but " + op_to_string(q.ops[f.op], f.rank) + " returned NC_NOERR on rank " + std::to_string(f.rank);
                        r.violations.push_back(v); break;
                    }
                }
                return r;
            };
            p.variants = [](const Program &base, const RunResult &br, bool th) {
                std::vector<Program> out;
                static const int classes[] = {MPI_ERR_IO, MPI_ERR_NO_SPACE, MPI_ERR_QUOTA, MPI_ERR_ACCESS, MPI_ERR_READ_ONLY, MPI_ERR_FILE, MPI_ERR_OTHER};
                if (!br.violations.empty()) return out;
                for (auto &c : br.iocalls) {
                    if (c.op < 0 || c.op >= (int)base.ops.size()) continue;   // epilogue closes are not part of the program
                    if (c.bytes == 0) continue;   // zero-byte participation in a collective transfer is not faulted (stated assumption: the unchanged library ignores its result at several sites, e.g. ncmpio__enddef, ncmpio_write_numrecs, ncmpio_write_header; DESIGN 9.3)
                    for (int cls : classes) { if (c.bytes == 0 && cls != MPI_ERR_IO && cls != MPI_ERR_NO_SPACE) continue; Program v = base; sim::Fault f; f.kind = c.bytes == 0 ? sim::F_IO_ZERO : sim::F_IO_DATA; f.rank = c.rank; f.op = c.op; f.nth = c.nth; f.errclass = cls; v.faults.push_back(f); out.push_back(v); }
                }
                return out;
            };
            p.nontrivial = [](const Program &q, const RunResult &r) { for (auto &f : r.faults) if (f.fired) return true; return false; };
            p.assumptions = {"zero-byte participation calls are not faulted (their return value may legitimately be ignored)", "after the faulted call every rank stops: behaviour of later calls after an I/O error is not judged"};
            p.quick_s = 60; p.thorough_s = 900;
            reg(p);
        }
    }
} init_profiles;
