// Program representation: configuration + op list (+ fault plan, schedule) and JSON (de)serialisation.
#pragma once
#include "json.hpp"
#include "sim.hpp"
#include "api.hpp"
#include <map>
#include <memory>
#include <string>
#include <vector>

enum OpKind {
    OP_CREATE, OP_OPEN, OP_CLOSE, OP_ABORT, OP_REDEF, OP_ENDDEF, OP_ENDDEF2, OP_BEGIN_INDEP, OP_END_INDEP, OP_SYNC, OP_SYNC_NUMRECS, OP_FLUSH,
    OP_SYNCPOINT, OP_BARRIER, OP_CHECKPOINT,
    OP_DEF_DIM, OP_DEF_VAR, OP_DEF_VAR_FILL, OP_SET_FILL, OP_FILL_VAR_REC, OP_PUT_ATT, OP_DEL_ATT, OP_RENAME_ATT, OP_COPY_ATT, OP_RENAME_DIM, OP_RENAME_VAR,
    OP_PUT, OP_GET, OP_IPUT, OP_IGET, OP_BPUT, OP_WAIT, OP_CANCEL, OP_ATTACH, OP_DETACH, OP_INQ, OP_BADID, OP_DELETE, OP_SET_DEFAULT_FORMAT, OP_PROBE, OP_OPENPROBE, OP_BIGCASE, OP_MANYFILES,
    OP_KIND_COUNT
};
extern const char *op_kind_name[];

// how a rank's arguments are deliberately made invalid (C08 / C15)
enum Invalid { INV_NONE = 0, INV_BAD_VARID, INV_BAD_START, INV_BAD_EDGE, INV_NEG_COUNT, INV_BAD_STRIDE, INV_TYPE_CHAR, INV_IOMISMATCH, INV_NULL_START, INV_COUNT };

struct MFile; struct Model;

struct Access {
    bool active = true;            // false: rank does not call (independent) / calls with a zero-length request (collective)
    int form = F_VARA;
    std::vector<long long> start, count, stride, imap;
    std::vector<std::vector<long long>> nstart, ncount;   // varn
    int memtype = MT_INT;
    bool flexible = false; int bufkind = 0;     // flexible API: layout of the user buffer datatype
    int invalid = INV_NONE;
    int reqslot = -1;              // nonblocking: slot in the rank's request table
    int erange = -1;               // >= 0: one element (index erange modulo the request length) gets a value outside the range of a 16-bit external type (applied by the annotator when the memory type can hold it)
    int vrank = -1;                // rank number used to derive the written values (-1 = the executing rank); lets C10 re-map a program onto other ranks with identical data
    // ---- filled by the annotator (never serialised as input)
    int exp_rc = 0; bool rc_any = false;  // expected return code / any error code acceptable
    std::vector<long long> values;        // put: values to write; get: expected values (selection order)
    std::vector<uint8_t> estate;          // get: per element 0 = compare value, 1 = expect fill, 2 = don't care
    int erange_k = -1;                    // resolved index of the out-of-range element (-1: none)
    bool tail_hazard = false;             // bput: enough free bytes in the attached buffer, but not above the last pending entry (known finding tail-only-reclaim)
    std::vector<long long> elems;         // linear element indices within the variable (record-major) in selection order
};

struct WaitSpec {                 // per rank
    bool active = true;
    int mode = 0;                 // 0 explicit list, 1 NC_REQ_ALL, 2 NC_GET_REQ_ALL, 3 NC_PUT_REQ_ALL, 4 explicit list of every pending request (puts in posting order, then gets; slots filled by the annotator)
    bool nostatus = false;        // pass a NULL status array
    std::vector<int> slots;       // request slots (may contain -1 => NC_REQ_NULL, -2 => unknown id)
    // annotator:
    std::vector<int> exp_status; int exp_rc = 0;
};

struct AttVal { int type = NC_INT; std::vector<long long> v; };   // text: v holds bytes

struct Op {
    int kind = OP_BARRIER;
    int file = 0;                  // file slot
    int var = 0, dim = 0;          // object indices (interpreted modulo what exists; var == -1 => NC_GLOBAL for attributes)
    std::string name, name2;       // names / paths
    long long a[6] = {0, 0, 0, 0, 0, 0};      // generic integer arguments
    std::vector<long long> dims;   // def_var dim indices
    AttVal att;
    bool coll = true;              // data ops: collective flavour
    std::vector<Access> acc;       // data ops: per rank
    std::vector<WaitSpec> waits;   // wait/cancel: per rank
    std::map<std::string, std::string> hints;  // create/open: MPI_Info hints
    int only_rank = -1;            // op executed by just this rank (independent-mode ops); -1 = all
    int alt_rank = -1; std::string alt_name; long long alt_val = 0;   // C08 safe mode: on rank alt_rank a collective metadata call gets this name (if not empty) / value instead (disagreeing arguments)
    // ---- annotator
    bool skip = false;             // not legal in the current model state: nobody executes it
    int exp_rc = 0; bool rc_any = false;
    std::vector<int> exp_rc_alt;   // other acceptable codes where the documentation fixes no precedence
    std::vector<int> exp_rc_rank;  // per-rank expected rc when they differ
    std::string note;
    std::shared_ptr<MFile> snap;      // schema (and for INQ: state) the call is checked against
    std::shared_ptr<Model> msnap;     // CHECKPOINT: full model snapshot for the raw-image oracles
    std::vector<long long> exp_nreqs, exp_usage, exp_usage_tail;   // exp_usage_tail: what a tail-only reclaiming allocator would report
    std::vector<long long> exp_numrecs_lo, exp_numrecs_hi;   // per rank: bounds on the record count the rank must report after the op (empty = unchecked)   // per rank: pending request count / attached-buffer usage after the op (-1 = unchecked)
};

struct ProgConfig {
    sim::SimConfig sim;
    std::string profile;           // which property profile generated it
    int format = 1;                // default format used by CREATE ops unless a[0] says otherwise
    bool checkpoint_every = false; // harness: file oracles after every op
    long long flags = 0;
};

struct Program {
    uint64_t seed = 0;
    ProgConfig cfg;
    std::vector<Op> ops;
    std::vector<sim::Fault> faults;
    std::vector<std::pair<std::string, std::vector<uint8_t>>> preload;   // files present in SimFS before the run starts (C04 / C19)
};

Json program_to_json(const Program &p);
Program program_from_json(const Json &j);
std::string op_to_string(const Op &op, int rank = -1);
std::string program_to_text(const Program &p, size_t maxops = 40);
