#pragma once
#include <mpi.h>
#include <pnetcdf.h>

enum MemType { MT_TEXT, MT_SCHAR, MT_UCHAR, MT_SHORT, MT_USHORT, MT_INT, MT_UINT, MT_LONG, MT_FLOAT, MT_DOUBLE, MT_LONGLONG, MT_ULONGLONG, MT_COUNT };
enum Form { F_VAR1, F_VAR, F_VARA, F_VARS, F_VARM, F_VARN, F_VARD, F_COUNT };
enum Kind { K_PUT, K_GET, K_IPUT, K_IGET, K_BPUT };

int mt_size(int mt);
MPI_Datatype mt_mpi(int mt);
const char *mt_name(int mt);

int api_typed(int kind, int form, bool coll, int ncid, int varid, const MPI_Offset *s, const MPI_Offset *c, const MPI_Offset *st, const MPI_Offset *im,
              void *buf, int mt, int *req);
int api_flex(int kind, int form, bool coll, int ncid, int varid, const MPI_Offset *s, const MPI_Offset *c, const MPI_Offset *st, const MPI_Offset *im,
             void *buf, MPI_Offset bufcount, MPI_Datatype bt, int *req);
int api_varn_typed(int kind, bool coll, int ncid, int varid, int num, MPI_Offset *const *starts, MPI_Offset *const *counts, void *buf, int mt, int *req);
int api_varn_flex(int kind, bool coll, int ncid, int varid, int num, MPI_Offset *const *starts, MPI_Offset *const *counts, void *buf, MPI_Offset bufcount,
                  MPI_Datatype bt, int *req);
int api_vard(int kind, bool coll, int ncid, int varid, MPI_Datatype filetype, void *buf, MPI_Offset bufcount, MPI_Datatype bt);
int api_put_att(int ncid, int varid, const char *name, int xtype, MPI_Offset n, const void *buf, int mt);
int api_get_att(int ncid, int varid, const char *name, void *buf, int mt);
// multi-variable APIs ncmpi_m{put,get}_var{a,s,m}[_<type>][_all]: form F_VARA / F_VARS / F_VARM, kind K_PUT / K_GET
int api_m_typed(int kind, int form, bool coll, int ncid, int nvars, int *varids, MPI_Offset *const *s, MPI_Offset *const *c, MPI_Offset *const *st, MPI_Offset *const *im, void **bufs, int mt);
int api_m_flex(int kind, int form, bool coll, int ncid, int nvars, int *varids, MPI_Offset *const *s, MPI_Offset *const *c, MPI_Offset *const *st, MPI_Offset *const *im, void **bufs,
               const MPI_Offset *bufcounts, const MPI_Datatype *bts);
