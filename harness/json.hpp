// Minimal JSON value, writer and parser (no external dependencies).
#pragma once
#include <cstdint>
#include <cstdio>
#include <cstdlib>
#include <map>
#include <string>
#include <vector>
#include <stdexcept>

struct Json {
    enum T { NUL, BOOL, INT, DBL, STR, ARR, OBJ } t = NUL;
    bool b = false; long long i = 0; double d = 0; std::string s;
    std::vector<Json> a; std::vector<std::pair<std::string, Json>> o;
    Json() {}
    Json(bool v) : t(BOOL), b(v) {}
    Json(int v) : t(INT), i(v) {}
    Json(long v) : t(INT), i(v) {}
    Json(long long v) : t(INT), i(v) {}
    Json(unsigned long v) : t(INT), i((long long)v) {}
    Json(unsigned long long v) : t(INT), i((long long)v) {}
    Json(double v) : t(DBL), d(v) {}
    Json(const char *v) : t(STR), s(v) {}
    Json(const std::string &v) : t(STR), s(v) {}
    static Json arr() { Json j; j.t = ARR; return j; }
    static Json obj() { Json j; j.t = OBJ; return j; }
    template <class V> static Json from(const std::vector<V> &v) { Json j = arr(); for (auto &x : v) j.a.push_back(Json(x)); return j; }
    Json &set(const std::string &k, const Json &v) { t = OBJ; for (auto &kv : o) if (kv.first == k) { kv.second = v; return *this; } o.push_back({k, v}); return *this; }
    Json &push(const Json &v) { t = ARR; a.push_back(v); return *this; }
    const Json *find(const std::string &k) const { for (auto &kv : o) if (kv.first == k) return &kv.second; return nullptr; }
    bool has(const std::string &k) const { return find(k) != nullptr; }
    const Json &at(const std::string &k) const { static Json nul; auto p = find(k); return p ? *p : nul; }
    long long num(long long dflt = 0) const { return t == INT ? i : t == DBL ? (long long)d : t == BOOL ? b : dflt; }
    double dbl(double dflt = 0) const { return t == DBL ? d : t == INT ? (double)i : dflt; }
    std::string str(const std::string &dflt = "") const { return t == STR ? s : dflt; }
    std::vector<long long> ints() const { std::vector<long long> v; for (auto &x : a) v.push_back(x.num()); return v; }

    static void esc(std::string &out, const std::string &s) {
        out += '"';
        for (unsigned char c : s) {
            if (c == '"') out += "\\\""; else if (c == '\\') out += "\\\\"; else if (c == '\n') out += "\\n"; else if (c == '\t') out += "\\t";
            else if (c < 0x20 || c >= 0x7f) { char b[8]; snprintf(b, sizeof b, "\\u%04x", c); out += b; }   // bytes are kept as latin-1 code points
            else out += (char)c;
        }
        out += '"';
    }
    void dump(std::string &out, int ind = -1, int lvl = 0) const {
        auto nl = [&](int l) { if (ind >= 0) { out += '\n'; out.append((size_t)l * ind, ' '); } };
        switch (t) {
        case NUL: out += "null"; break;
        case BOOL: out += b ? "true" : "false"; break;
        case INT: out += std::to_string(i); break;
        case DBL: { char buf[40]; snprintf(buf, sizeof buf, "%.17g", d); out += buf; break; }
        case STR: esc(out, s); break;
        case ARR: {
            out += '['; bool simple = true; for (auto &x : a) if (x.t == ARR || x.t == OBJ) simple = false;
            for (size_t k = 0; k < a.size(); k++) { if (k) out += ','; if (!simple) nl(lvl + 1); a[k].dump(out, ind, lvl + 1); }
            if (!simple && !a.empty()) nl(lvl); out += ']'; break;
        }
        case OBJ: {
            out += '{';
            for (size_t k = 0; k < o.size(); k++) { if (k) out += ','; nl(lvl + 1); esc(out, o[k].first); out += ':'; if (ind >= 0) out += ' '; o[k].second.dump(out, ind, lvl + 1); }
            if (!o.empty()) nl(lvl); out += '}'; break;
        }
        }
    }
    std::string dump(int ind = -1) const { std::string s; dump(s, ind, 0); return s; }

    // ---- parser
    struct P { const char *p, *e; };
    static void ws(P &p) { while (p.p < p.e && (*p.p == ' ' || *p.p == '\n' || *p.p == '\t' || *p.p == '\r')) p.p++; }
    static Json parse(const std::string &txt) { P p{txt.data(), txt.data() + txt.size()}; Json j = pv(p); return j; }
    static Json pv(P &p) {
        ws(p); if (p.p >= p.e) throw std::runtime_error("json: eof");
        char c = *p.p;
        if (c == '{') { p.p++; Json j = obj(); ws(p); if (*p.p == '}') { p.p++; return j; }
            while (true) { ws(p); Json k = pv(p); ws(p); if (*p.p != ':') throw std::runtime_error("json: ':'"); p.p++; Json v = pv(p); j.o.push_back({k.s, v}); ws(p); if (*p.p == ',') { p.p++; continue; } if (*p.p == '}') { p.p++; return j; } throw std::runtime_error("json: obj"); } }
        if (c == '[') { p.p++; Json j = arr(); ws(p); if (*p.p == ']') { p.p++; return j; }
            while (true) { j.a.push_back(pv(p)); ws(p); if (*p.p == ',') { p.p++; continue; } if (*p.p == ']') { p.p++; return j; } throw std::runtime_error("json: arr"); } }
        if (c == '"') { p.p++; Json j; j.t = STR;
            while (p.p < p.e && *p.p != '"') {
                if (*p.p == '\\') { p.p++; char e = *p.p++; if (e == 'n') j.s += '\n'; else if (e == 't') j.s += '\t'; else if (e == 'r') j.s += '\r'; else if (e == 'u') { unsigned v = (unsigned)strtoul(std::string(p.p, 4).c_str(), nullptr, 16); p.p += 4; j.s += (char)(unsigned char)v; } else j.s += e; }
                else j.s += *p.p++;
            }
            p.p++; return j; }
        if (!strncmp_(p, "true")) { p.p += 4; return Json(true); }
        if (!strncmp_(p, "false")) { p.p += 5; return Json(false); }
        if (!strncmp_(p, "null")) { p.p += 4; return Json(); }
        char *end; const char *st = p.p; bool isd = false;
        for (const char *q = st; q < p.e && (isdigit_(*q) || *q == '-' || *q == '+' || *q == '.' || *q == 'e' || *q == 'E'); q++) if (*q == '.' || *q == 'e' || *q == 'E') isd = true;
        if (isd) { double d = strtod(st, &end); p.p = end; return Json(d); }
        long long v = strtoll(st, &end, 10); if (end == st) throw std::runtime_error("json: value"); p.p = end; return Json(v);
    }
    static bool isdigit_(char c) { return c >= '0' && c <= '9'; }
    static int strncmp_(P &p, const char *lit) { size_t n = 0; while (lit[n]) n++; if ((size_t)(p.e - p.p) < n) return 1; for (size_t k = 0; k < n; k++) if (p.p[k] != lit[k]) return 1; return 0; }
};
