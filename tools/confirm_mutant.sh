#!/bin/bash
# usage: tools/confirm_mutant.sh <ID> <nprocs>   -- re-verify a sub-agent's seeded change in its scratch worktree /tmp/mut_<ID>
id="$1"; np="${2:-4}"; wt=/tmp/mut_$id; work=/tmp/mut_${id}_work; log=/tmp/confirm_$id.log
exec >"$log" 2>&1
set -x
cd "$wt" || exit 2
git diff --stat -- src
git diff -- src > /tmp/confirm_$id.diff; cmp /tmp/confirm_$id.diff "$work/patch.diff" || echo "NOTE: worktree diff differs from patch.diff"
git checkout -- src && git apply "$work/patch.diff" || { echo "CONFIRM-FAIL: patch does not apply"; exit 1; }
make -s -j8 > /tmp/confirm_${id}_build.log 2>&1 || { echo "CONFIRM-FAIL: build"; exit 1; }
mpicc -I"$wt/src/include" "$work/demo.c" -o "$work/demo_with" "$wt/src/libs/.libs/libpnetcdf.a" -lm || { echo "CONFIRM-FAIL: demo build"; exit 1; }
( cd "$work" && timeout 120 mpiexec --allow-run-as-root --oversubscribe -n "$np" ./demo_with > demo_with.out 2>&1 ); rc_with=$?
make -s check > /tmp/confirm_${id}_check.log 2>&1; rc_check=$?
grep -c "^FAIL" /tmp/confirm_${id}_check.log
git apply -R "$work/patch.diff" && make -s -j8 >> /tmp/confirm_${id}_build.log 2>&1
mpicc -I"$wt/src/include" "$work/demo.c" -o "$work/demo_without" "$wt/src/libs/.libs/libpnetcdf.a" -lm
( cd "$work" && timeout 120 mpiexec --allow-run-as-root --oversubscribe -n "$np" ./demo_without > demo_without.out 2>&1 ); rc_without=$?
set +x
echo "RESULT id=$id demo_with_change_exit=$rc_with demo_without_change_exit=$rc_without make_check_exit=$rc_check"
if [ $rc_with -ne 0 ] && [ $rc_without -eq 0 ] && [ $rc_check -eq 0 ]; then echo "CONFIRMED $id"; else echo "NOT-CONFIRMED $id"; fi
