#!/bin/bash
# usage: tools/new_worktree.sh <dir>   -- scratch git worktree of /repo HEAD with the (git-ignored) build system copied in, ready for `make`
set -e
d="$1"; git -C /repo worktree add -q --detach "$d" HEAD
rsync -a --ignore-existing --exclude .git /repo/ "$d"/
echo "$d ready"
