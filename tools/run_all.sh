#!/bin/bash
# usage: tools/run_all.sh [quick|thorough]  -- runs every claimed check in sequence, prints one line per check (refreshes evidence/*.json)
tier="${1:-quick}"; cd /verif || exit 2
for id in $(python3 -c "import json;print(' '.join(c['property_id'] for c in json.load(open('MANIFEST.json'))['checks']))"); do
  out=$(./check "$id" --tier "$tier" 2>&1); rc=$?
  echo "$id exit=$rc $(echo "$out" | grep -c '^KNOWN-FINDING') known-finding line(s); $(echo "$out" | grep "^$id:" | tail -1)"
  [ $rc -ne 0 ] && echo "$out" | grep -A4 "^VIOLATION\|INFRA" | cut -c1-500 | head -20
done
