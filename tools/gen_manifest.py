#!/usr/bin/env python3
# Regenerates /verif/MANIFEST.json from the table below (kept in one place so the manifest stays consistent with DESIGN.md).
import json, subprocess
TECH = "deterministic simulation with fault injection: whole MPI job (ranks, simulated MPI/MPI-IO, in-memory file system) in one process under a seeded scheduler"
checks = {
 "C01": ("exploration", "Seeded search over generated programs x decompositions x API forms x schedules; every value read back through the API and every raw file image at checkpoints is compared with an executable reference model and an independent CDF decoder. Sampling, not proof: bounded shapes (<= 5 dims, <= 16k elements per variable/record, 1..8 ranks).", "4.C01"),
 "C02": ("exploration", "Seeded search over multisets of iput/iget/bput requests, wait partitions, id orders (incl. NC_REQ_NULL / unknown ids) and schedules; read buffers, file images, statuses, ncmpi_inq_nreqs compared with the model executing each request as a blocking call at completion time.", "4.C02"),
 "C03": ("exploration", "Schema-heavy programs with a raw-image checkpoint after every op; strict decode with a codec written from the format specification, layout rules (order, alignment 4, no overlap, vsize, single-record-variable rule), library reports vs file.", "4.C03"),
 "C05": ("exploration", "Histories of collective/independent/nonblocking record writes on 2..8 simulated ranks under seeded schedules; every rank's reported record count after every op and the header field at checkpoints are compared with the model (exact in collective mode, bounded in independent mode).", "4.C05"),
 "C06": ("exploration", "Files with data put through 1..3 redefinition deltas with the MOVE_UNIT knob reduced so moves take many rounds across ranks; data compared with the model afterwards; aborted redefinitions compared byte-for-byte with the image at ncmpi_redef; aborted creates must vanish.", "4.C06"),
 "C07": ("exploration", "Histories of metadata operations vs a sequential model: all inquiries by id and by name after each op, header on the simulated disk at checkpoints, name-table sizes and growth knobs randomised.", "4.C07"),
 "C13": ("exploration", "Caller buffers between canaries compared byte-for-byte after every completing call; bput buffers overwritten right after posting; attached-buffer usage and NC_EINSUFFBUF vs the model.", "4.C13"),
 "C16": ("exploration", "Fill configurations x ranks x redefinitions x partial writes; never-written elements read through the API and decoded from the raw image must equal the fill value; no-fill variables are left unchecked (their content is unspecified).", "4.C16"),
}
note = "Trusted base: simmpi/SimFS (my reading of MPI-3.1, POSIX-strong visibility), the reference model and the independent codec. The real PnetCDF objects are rebuilt from /repo's working tree on every invocation. A clean batch is evidence bounded by the generator bounds, not a proof."
props = [json.loads(l) for l in open('/verif/properties.jsonl')]
na_reasons = {
 "C09": "pure function of (external type, memory type, value): no schedule, clock, fault, storage state or second party in the statement; deterministic simulation has nothing to search (DESIGN.md section 6)",
 "C20": "offline utilities are programs outside the library whose verdicts are pure functions of their input files; no interleaving, fault or history for a simulator to search (DESIGN.md section 6)",
}
import os
extra = json.load(open('/verif/tools/manifest_extra.json')) if os.path.exists('/verif/tools/manifest_extra.json') else {}
for k, v in extra.get("checks", {}).items(): checks[k] = tuple(v)
hooks = subprocess.run(["git", "-C", "/repo", "log", "--format=%h", "--grep=^verif hook"], capture_output=True, text=True).stdout.split()
m = {"version": 1,
     "setup_cmd": "make -C /verif -s setup",
     "hooks": {"guard": "PNETCDF_VERIF", "enable": "/verif/Makefile compiles the library sources of /repo's working tree with -DPNETCDF_VERIF=1 (size constants become run-time knobs read through pnc_verif_knob())",
               "baseline_off_cmd": "cd /repo && make -s -j8 && make -s check", "source_commits": hooks, "add_only": True},
     "engines": [{"name": "pncsim", "path": "/verif/check", "serves_properties": sorted(checks), "kind_free_text": "deterministic simulation with fault injection: simulated MPI + MPI-IO + in-memory file system + seeded fiber scheduler + fault plan around the real PnetCDF library objects; model-guided program generator, reference model, independent CDF codec, ddmin shrinking, replay files"}],
     "checks": [], "notes": "see DESIGN.md; known findings in findings/known_findings.json", "not_applicable": []}
for p in props:
    pid = p["id"]
    if pid in checks:
        lvl, text, ref = checks[pid]
        m["checks"].append({"property_id": pid, "quick_cmd": f"./check {pid} --tier quick", "thorough_cmd": f"./check {pid} --tier thorough", "evidence_file": f"/verif/evidence/{pid}.json",
                            "replay_cmd_template": "./check --replay {path}", "engine": "pncsim", "level_claimed": {"category": lvl, "text": text, "design_ref": ref}, "level_note": note, "technique": TECH})
    else:
        m["not_applicable"].append({"property_id": pid, "reason": na_reasons.get(pid, "check not built yet (work in progress); will be claimed once its profile is sound")})
json.dump(m, open('/verif/MANIFEST.json', 'w'), indent=1)
print("claimed:", sorted(checks), "not applicable:", [x["property_id"] for x in m["not_applicable"]])
