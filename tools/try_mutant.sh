#!/bin/bash
# usage: tools/try_mutant.sh <patch.diff> <seconds> <id> [<id> ...]
# applies the patch to /repo's working tree, runs the named checks, and restores the tree (git checkout) whatever happens
patch="$(readlink -f "$1")"; secs="$2"; shift 2
cd /repo || exit 2
if ! git diff --quiet -- src; then echo "refusing: /repo has uncommitted changes under src"; exit 2; fi
git apply "$patch" || { echo "patch does not apply"; exit 2; }
trap 'git -C /repo checkout -- . ; echo "[repo restored]"' EXIT
cd /verif
for id in "$@"; do
  out=$(./check "$id" --seconds "$secs" 2>&1); rc=$?
  echo "== $id: exit $rc"; echo "$out" | grep -A3 "^VIOLATION\|INFRA" | cut -c1-700 | head -12
done
